(* C14 - the parser realises the documented expression grammar: render-then-parse round-trips. *)
From Coq Require Import List Arith String.
From Bloch Require Import Parse.PrattModel Parse.PrattProofs.
Import ListNotations.

(* every well-parenthesised tree over all expression forms (literals, names, this/super/null, measure,
   new, array literals, parentheses, casts, prefix, binary, postfix, calls, indexing, member access and
   the three assignment forms) is parsed back from its rendering, for every sufficiently large fuel and
   every continuation that cannot extend an expression *)
Theorem C14_render_then_parse_roundtrips : forall e rest, ok e -> aclosed rest ->
  exists n0, forall n, n0 <= n -> p_assign n (render e ++ rest) = Some (e, rest).
Proof. exact pratt_roundtrip. Qed.
Print Assumptions C14_render_then_parse_roundtrips.

(* the minimal parentheses the precedence and associativity rules require are enough, and they are
   the only thing added: parsing the minimal rendering of ANY tree gives that tree *)
Theorem C14_minimal_parentheses_suffice : forall e rest, idx_ok e -> aclosed rest ->
  strip (add_parens e) = strip e /\
  exists n0, forall n, n0 <= n -> p_assign n (render (add_parens e) ++ rest) = Some (add_parens e, rest).
Proof. exact render_minimal_then_parse. Qed.
Print Assumptions C14_minimal_parentheses_suffice.

Theorem C14_minimal_rendering_is_well_parenthesised : forall e, idx_ok e -> ok (add_parens e).
Proof. exact add_parens_ok. Qed.
Print Assumptions C14_minimal_rendering_is_well_parenthesised.

Local Open Scope string_scope.
Definition v (s : string) := EVar s.
Example ex_roundtrip :
  let e := EBin Mul (EBin Add (v "a") (EUn PNeg (EPost PInc (v "b")))) (EBin Sub (v "c") (EBin Sub (v "d") (ECall (EMember (v "o") "f") [EAssign "x" (EMeasure (v "q"))]))) in
  parse_expr (render (add_parens e) ++ [KRP]) = Some (add_parens e, [KRP]) /\ add_parens e <> e /\ strip (add_parens e) = e.
Proof. cbv zeta. split; [vm_compute; reflexivity|]. split; [vm_compute; discriminate|vm_compute; reflexivity]. Qed.
