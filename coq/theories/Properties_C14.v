(* C14 - the parser realises the documented expression grammar: render-then-parse round-trips. *)
From Coq Require Import List Arith String Lia.
From Bloch Require Import Parse.PrattModel Parse.PrattProofs Parse.StmtModel Parse.StmtProofs.
Import ListNotations.

(* every well-parenthesised tree over all expression forms (literals, names, this/super/null, measure,
   new, array literals, parentheses, casts, prefix, binary, postfix, calls, indexing, member access and
   the three assignment forms) is parsed back from its rendering, for every sufficiently large fuel and
   every continuation that cannot extend an expression *)
Theorem C14_render_then_parse_roundtrips : forall e rest, ok e -> aclosed rest ->
  exists n0, forall n, n0 <= n -> p_assign n (render e ++ rest) = Some (e, rest).
Proof. exact pratt_roundtrip. Qed.
Print Assumptions C14_render_then_parse_roundtrips.

(* the minimal parentheses the precedence and associativity rules require are enough, and they are
   the only thing added: parsing the minimal rendering of ANY tree gives that tree *)
Theorem C14_minimal_parentheses_suffice : forall e rest, idx_ok e -> aclosed rest ->
  strip (add_parens e) = strip e /\
  exists n0, forall n, n0 <= n -> p_assign n (render (add_parens e) ++ rest) = Some (add_parens e, rest).
Proof. exact render_minimal_then_parse. Qed.
Print Assumptions C14_minimal_parentheses_suffice.

Theorem C14_minimal_rendering_is_well_parenthesised : forall e, idx_ok e -> ok (add_parens e).
Proof. exact add_parens_ok. Qed.
Print Assumptions C14_minimal_rendering_is_well_parenthesised.

(* statements: every well-formed statement tree - blocks, declarations (final, @tracked, primitive / class / array types
   with literal, named or absent sizes), return, if / else, for with every kind of initialiser, while, echo, reset,
   measure, destroy, the conditional statement (also on a measurement), assignment and expression statements, nested
   to any depth - is parsed back from its rendering, in front of every continuation that does not begin with 'else'.
   [ok_stmt] asks that the expressions are well parenthesised ([ok]), that array sizes fit, and - where the grammar itself is
   ambiguous - that the statement's first tokens do not read as something else (an expression statement must not start
   like a block, a measure statement, 'name =' or a declaration; a class-typed declaration must pass the look-ahead) *)
Theorem C14_statement_render_then_parse_roundtrips : forall s rest, ok_stmt s -> no_else rest ->
  exists n0, forall n, n0 <= n -> p_stmt n (render_stmt s ++ rest) = Some (s, rest).
Proof. exact stmt_roundtrip. Qed.
Print Assumptions C14_statement_render_then_parse_roundtrips.

Theorem C14_block_body_roundtrips : forall ss rest, ok_stmts ss ->
  exists n0, forall n, n0 <= n -> p_items_s n (render_stmts ss ++ KRBrace :: rest) = Some (ss, rest).
Proof. exact block_roundtrip. Qed.
Print Assumptions C14_block_body_roundtrips.

(* the look-ahead condition on declarations holds for every primitive type with any dimensions and for class types
   that are plain or have one dimension of absent or literal size *)
Theorem C14_declarations_pass_the_look_ahead : forall (p : prim) (ds : list asize) (c t name : string),
  decl_start (mkTy (BPrim p) ds) name /\ decl_start (mkTy (BCls c nil) nil) name /\
  decl_start (mkTy (BCls c nil) (ANone :: nil)) name /\ decl_start (mkTy (BCls c nil) (ALit t :: nil)) name.
Proof. intros. split; [apply decl_start_prim|split; [apply decl_start_cls|split; [apply decl_start_cls_arr|apply decl_start_cls_arr_lit]]]. Qed.
Print Assumptions C14_declarations_pass_the_look_ahead.

Local Open Scope string_scope.
Definition v (s : string) := EVar s.
Example ex_roundtrip :
  let e := EBin Mul (EBin Add (v "a") (EUn PNeg (EPost PInc (v "b")))) (EBin Sub (v "c") (EBin Sub (v "d") (ECall (EMember (v "o") "f") [EAssign "x" (EMeasure (v "q"))]))) in
  parse_expr (render (add_parens e) ++ [KRP]) = Some (add_parens e, [KRP]) /\ add_parens e <> e /\ strip (add_parens e) = e.
Proof. cbv zeta. split; [vm_compute; reflexivity|]. split; [vm_compute; discriminate|vm_compute; reflexivity]. Qed.

(* non-vacuity: a nested statement that meets every hypothesis, and its round trip by computation *)
Definition sample_stmt : stmt :=
  SBlock [SDecl true true (mkTy (BPrim TyQubit) [ALit "3"]) "r" None;
          SDecl false false (mkTy (BCls "K" ["pkg"]) []) "k" (Some (ENew "K" []));
          SIf (EBin Lt (v "a") (v "b")) [SEcho (v "x"); SReturn None] (Some [SAssign "x" (ELit "int" "1")]);
          SFor (FDecl false (mkTy (BPrim TyInt) []) "i" (Some (ELit "int" "0"))) (EBin Lt (v "i") (ELit "int" "3"))
               (EAssign "i" (EBin Add (v "i") (ELit "int" "1"))) [SMeasure (v "q"); SReset (EIndex (v "r") (ELit "int" "0"))];
          STern (EMeasure (v "q")) (SEcho (ELit "int" "1")) (STern (v "c") (SReturn (Some (v "z"))) (SExpr (ECall (v "f") [v "y"])));
          SWhile (v "t") [SDestroy (v "o"); SExpr (EPost PInc (v "n"))]].
Example ex_stmt_ok : ok_stmt sample_stmt.
Proof.
  cbn [sample_stmt ok_stmt ok_finit ok_opt ok_ty ok_dim tdims tbase_of]. unfold expr_start, decl_start, tight.
  repeat split; try (cbn; lia); try reflexivity; try (cbn; auto; fail); try (intros; discriminate);
    try (right; intros tl; reflexivity); try (right; intros tl; split; [exact I|reflexivity]);
    try (intros tl; split; [exact I|reflexivity]); try (left; reflexivity); try (constructor; [reflexivity|constructor]); try constructor;
    try (unfold rbp, lbp, postfix_bp; lia); try (eexists; reflexivity).
Qed.
Example ex_stmt_roundtrip : parse_stmt (render_stmt sample_stmt ++ [KRBrace]) = Some (sample_stmt, [KRBrace]).
Proof. vm_compute. reflexivity. Qed.
