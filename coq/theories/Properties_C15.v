(* C15 - the lexer is lossless and token positions are exact. *)
From Coq Require Import List Arith Ascii String.
From Bloch Require Import Lex.LexModel Lex.LexProofs.
Import ListNotations.

(* tokens and the skipped trivia, in order, are the source; trivia is only whitespace and // comments;
   the token texts are exactly the non-trivia pieces (plus the empty Eof) *)
Theorem C15_lexer_is_lossless : forall s ts cs, lex s = LexOk ts cs ->
  flatten cs = s /\ Forall chunk_ok cs /\ map ttext ts = tok_texts cs ++ [[]].
Proof. exact lex_lossless. Qed.
Print Assumptions C15_lexer_is_lossless.

(* every token's reported line/column is where its first character is, and the source continues
   there with the token's text - for every source, including literals and comments containing
   newlines, tabs, quotes, operator characters, and adjacent tokens without whitespace *)
Theorem C15_token_positions_are_exact : forall s ts cs, lex s = LexOk ts cs -> Forall (placed s) ts.
Proof. exact lex_positions_exact. Qed.
Print Assumptions C15_token_positions_are_exact.

Theorem C15_lexer_is_total : forall s, lex s <> LexFuel.
Proof. exact lex_total. Qed.
Print Assumptions C15_lexer_is_total.

Local Open Scope string_scope.
Definition src1 : list ascii := list_ascii_of_string
  ("x = ""a" ++ String (ascii_of_nat 10) "b""; y>=1.5f // c" ++ String (ascii_of_nat 10) " z").
Example ex_lex : match lex src1 with
                 | LexOk ts _ => map (fun t => (tline t, tcol t)) ts = [(1,1);(1,3);(1,5);(2,3);(2,5);(2,6);(2,8);(3,2);(3,3)]
                 | _ => False end.
Proof. vm_compute. reflexivity. Qed.
