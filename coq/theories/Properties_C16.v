(* C16 - static rules are enforced in every syntactic position.
   The reference checker is Lang/Typing.v (classical core).  What is proved about it here is that it
   is compositional - a compound statement is accepted only if every statement inside it is accepted in
   the environment that position has - which is what "enforced wherever the violation is written"
   means for a checker, together with the operator-level soundness that justifies the type rules
   (C07).  That the implementation's analyser agrees with this checker on every position is decided by
   differential acceptance testing; the class-related rules are checked against their text only. *)
From Coq Require Import List ZArith String Ascii Bool.
From Bloch Require Import Lang.Soundness Lang.Syntax Lang.Eval Lang.Typing.
Import ListNotations.

Theorem C16_a_block_is_accepted_only_if_every_statement_is :
  forall sigs ret G ss, check_stmt sigs ret G (SBlock ss) <> None ->
    check_stmts sigs ret ([] :: G) ss <> None.
Proof.
  intros sigs ret G ss H. cbn [check_stmt] in H.
  assert (forall G0 l, (fix checks (G : tenv) (ss : list stmt) {struct ss} : option tenv :=
                          match ss with
                          | [] => Some G
                          | a :: r => match check_stmt sigs ret G a with Some G' => checks G' r | None => None end
                          end) G0 l = check_stmts sigs ret G0 l) as E.
  { intros G0 l. revert G0. induction l as [|a r IH]; intro G0; cbn; [reflexivity|]. destruct (check_stmt sigs ret G0 a); auto. }
  rewrite E in H. destruct (check_stmts sigs ret ([] :: G) ss); [discriminate | exact H].
Qed.
Print Assumptions C16_a_block_is_accepted_only_if_every_statement_is.

Theorem C16_a_statement_list_is_checked_left_to_right_in_the_growing_environment :
  forall sigs ret G a r, check_stmts sigs ret G (a :: r) <> None ->
    exists G', check_stmt sigs ret G a = Some G' /\ check_stmts sigs ret G' r <> None.
Proof.
  intros sigs ret G a r H. cbn [check_stmts] in H. destruct (check_stmt sigs ret G a) as [G'|]; [|congruence].
  exists G'. auto.
Qed.
Print Assumptions C16_a_statement_list_is_checked_left_to_right_in_the_growing_environment.

(* branches, loop bodies and loop headers are positions too *)
Theorem C16_branches_and_loop_parts_are_checked :
  forall sigs ret G,
    (forall c a b, check_stmt sigs ret G (SIf c a b) <> None ->
        (exists t, type_expr sigs G c = Some t /\ boolish t = true) /\ check_stmt sigs ret G a <> None /\
        match b with Some b' => check_stmt sigs ret G b' <> None | None => True end) /\
    (forall c body, check_stmt sigs ret G (SWhile c body) <> None ->
        (exists t, type_expr sigs G c = Some t /\ boolish t = true) /\ check_stmt sigs ret G body <> None).
Proof.
  intros sigs ret G. split.
  - intros c a b H. cbn [check_stmt] in H. destruct (type_expr sigs G c) as [t|]; [|congruence].
    destruct (boolish t) eqn:B; [|cbn in H; congruence]. cbn [andb] in H.
    destruct (is_decl a); [cbn in H; congruence|]. cbn [negb andb] in H.
    destruct (check_stmt sigs ret G a); [|cbn in H; congruence]. cbn [andb] in H.
    split; [eauto|]. split; [discriminate|].
    destruct b as [b'|]; [|exact I]. destruct (is_decl b'); [cbn in H; congruence|]. cbn [negb andb] in H.
    destruct (check_stmt sigs ret G b'); [discriminate | cbn in H; congruence].
  - intros c body H. cbn [check_stmt] in H. destruct (type_expr sigs G c) as [t|]; [|congruence].
    destruct (boolish t) eqn:B; [|cbn in H; congruence]. cbn [andb] in H.
    destruct (is_decl body); [cbn in H; congruence|]. cbn [negb andb] in H.
    destruct (check_stmt sigs ret G body); [|cbn in H; congruence]. split; [eauto | discriminate].
Qed.
Print Assumptions C16_branches_and_loop_parts_are_checked.

(* the rules themselves, at a leaf: a final variable is never a legal assignment target, by statement,
   nested assignment expression or postfix; an undeclared name is never typeable *)
Theorem C16_final_and_undeclared_names_are_rejected_at_every_leaf :
  forall sigs ret G x t,
    t_lookup x G = Some (t, true) ->
    (forall a, check_stmt sigs ret G (SAssign x a) = None) /\
    (forall a, type_expr sigs G (EAssign x a) = None) /\
    (forall inc, type_expr sigs G (EPost x inc) = None).
Proof.
  intros sigs ret G x t H. repeat split; intros; cbn; rewrite H; auto.
Qed.
Print Assumptions C16_final_and_undeclared_names_are_rejected_at_every_leaf.

Theorem C16_an_undeclared_name_is_never_typeable :
  forall sigs G x, t_lookup x G = None -> type_expr sigs G (EVar x) = None.
Proof. intros sigs G x H. cbn. now rewrite H. Qed.
Print Assumptions C16_an_undeclared_name_is_never_typeable.

(* whole programs: whatever the fuel, a class-free program accepted by the reference checker finishes, runs out of
   fuel, or ends with a documented runtime error (or a result flagged as outside the documentation) - it never
   reaches an operation the semantics does not define *)
Theorem C16_the_static_rules_suffice_for_defined_behaviour :
  forall F (O : fops F) p fuel, check_program p = true -> p_classes p = [] ->
    forall why, snd (run O fuel p) <> Failed (RStuck why).
Proof. exact @checked_programs_never_get_stuck. Qed.
Print Assumptions C16_the_static_rules_suffice_for_defined_behaviour.

(* ---- the class rules, for the class-level reference checker (Lang/ClassTyping.v) ----
   Wherever an expression is written in an accepted body - any statement nesting, loop header or step, any
   expression depth - the rule for its form holds (Lang/ClassRules.v, rule_ok): `new` only of a normal class and
   through an accessible constructor; fields and methods only where their visibility allows, by any route
   (a.f, bare name, C.f, a.m(), m(), super.m(), C.m()); this / super never in a static context; a final field written
   only by a constructor of its own class through this, and only when it has no initialiser; a final or
   inaccessible name never assigned or incremented. *)
From Bloch Require Import Lang.ClassTyping Lang.ClassRules.

Theorem C16_class_rules_hold_at_every_position_of_an_accepted_body :
  forall fsigs cls depth cx ret G ss G1 G' e e',
    cchecks fsigs cls depth cx ret G ss = Some G1 ->
    inside_list fsigs cls depth cx ret G ss G' e -> within e' e ->
    rule_ok fsigs cls depth cx G' e'.
Proof. exact rules_hold_in_every_position. Qed.
Print Assumptions C16_class_rules_hold_at_every_position_of_an_accepted_body.

Theorem C16_what_private_and_protected_mean :
  forall cls depth o ctx,
    (accessible cls depth VPriv o ctx = true -> ctx = Some o) /\
    (accessible cls depth VProt o ctx = true -> exists c, ctx = Some c /\ subclass cls depth c o = true) /\
    (forall v, accessible cls depth v o None = true -> v = VPub).
Proof.
  intros cls depth o ctx. split; [apply private_is_own_class|]. split; [apply protected_is_hierarchy|].
  intros v. apply outside_every_class_only_public.
Qed.
Print Assumptions C16_what_private_and_protected_mean.

(* the premises are satisfiable, at a position tests do not write: `new` nested in a field read in a for-step *)
Example C16_a_nested_position :
  let A := mkClass "A" None [mkField false false TInt "v" None VPub] [mkCtor [] None [] false VPub] [] None KNormal in
  let cls := fun c => if String.eqb c "A" then Some A else None in
  let cx := mkCx None false false in
  let ss := [SFor None None (Some (SExpr (EField (ENew "A" []) "v"))) (SBlock [])] in
  cchecks (fun _ => None) cls 1 cx TVoid [[]] ss = Some [[]] /\
  exists G', inside_list (fun _ => None) cls 1 cx TVoid [[]] ss G' (EField (ENew "A" []) "v") /\
             within (ENew "A" []) (EField (ENew "A" []) "v").
Proof.
  cbv zeta. split; [vm_compute; reflexivity|].
  eexists. split.
  - apply in_head. eapply in_for_step; [reflexivity | vm_compute; reflexivity |]. apply in_here. left. reflexivity.
  - eapply within_child; [left; reflexivity | apply within_refl].
Qed.

Theorem C16_an_accepted_class_program_accepts_every_body_in_its_context :
  forall p, ccheck_program p = true ->
  let sg := sig_of p in let cl := find_class_t p in let n := List.length (p_classes p) in
  (forall f, In f (p_fns p) ->
     exists G1, cchecks sg cl n (mkCx None false false) (fn_ret f) (params_env (fn_params f)) (fn_body f) = Some G1) /\
  (forall cd, In cd (p_classes p) ->
     (forall md, In md (cd_meths cd) ->
        exists G1, cchecks sg cl n (mkCx (Some (cd_name cd)) (md_static md) false) (md_ret md) (params_env (md_params md)) (md_body md) = Some G1) /\
     (forall ct, In ct (cd_ctors cd) ->
        exists G1, cchecks sg cl n (mkCx (Some (cd_name cd)) false true) TVoid (params_env (ct_params ct)) (ct_body ct) = Some G1) /\
     (forall body, cd_dtor cd = Some body ->
        exists G1, cchecks sg cl n (mkCx (Some (cd_name cd)) false false) TVoid [] body = Some G1)).
Proof. exact accepted_program_bodies. Qed.
Print Assumptions C16_an_accepted_class_program_accepts_every_body_in_its_context.

Theorem C16_in_an_accepted_program_the_class_rules_hold_at_every_position_of_every_method :
  forall p cd md G' e e',
  ccheck_program p = true -> In cd (p_classes p) -> In md (cd_meths cd) ->
  let sg := sig_of p in let cl := find_class_t p in let n := List.length (p_classes p) in
  let cx := mkCx (Some (cd_name cd)) (md_static md) false in
  inside_list sg cl n cx (md_ret md) (params_env (md_params md)) (md_body md) G' e -> within e' e ->
  rule_ok sg cl n cx G' e'.
Proof. exact accepted_program_method_rules. Qed.
Print Assumptions C16_in_an_accepted_program_the_class_rules_hold_at_every_position_of_every_method.
