(* C17 - @tracked/@shots reporting counts every scope exit of every shot exactly once. *)
From Coq Require Import List Arith String QArith.
From Bloch Require Import Tracked.Tracked Tracked.TrackedProofs.
Import ListNotations.
Local Open Scope nat_scope.

(* one outcome per scope exit: a variable's counts sum to its number of exits in the shot *)
Theorem C17_counts_sum_to_scope_exits : forall v events, tab_total v (shot_table events) = count_events v events.
Proof. exact counts_sum. Qed.
Print Assumptions C17_counts_sum_to_scope_exits.

Theorem C17_each_outcome_counted_once : forall v o events, tab_get v o (shot_table events) = count_pair v o events.
Proof. exact shot_table_counts. Qed.
Print Assumptions C17_each_outcome_counted_once.

(* the aggregate table is the per-shot tables added together, entry by entry, for any number of shots *)
Theorem C17_aggregate_is_sum_of_shots : forall v o ts, Forall tab_wf ts ->
  tab_get v o (aggregate ts) = fold_right (fun t acc => tab_get v o t + acc) 0 ts.
Proof. exact aggregate_is_sum. Qed.
Print Assumptions C17_aggregate_is_sum_of_shots.

Theorem C17_shot_tables_are_wellformed : forall events, tab_wf (shot_table events).
Proof. exact shot_table_wf. Qed.
Print Assumptions C17_shot_tables_are_wellformed.

(* probabilities are counts over the variable's own total: each in [0,1], summing to 1 *)
Theorem C17_probabilities_form_a_distribution : forall r,
  (0 < row_total r)%nat ->
  (row_prob_sum r (row_total r) == 1)%Q /\
  (forall o c, In (o, c) r -> (0 <= prob c (row_total r))%Q /\ (prob c (row_total r) <= 1)%Q).
Proof.
  intros r Ht. split; [apply probs_sum_to_one; assumption|]. intros o c Hin.
  apply prob_range; [eapply row_entry_le; eauto|assumption].
Qed.
Print Assumptions C17_probabilities_form_a_distribution.

(* an outcome is the bit string of the elements' last measurements in index order, or '?' *)
Theorem C17_outcome_shape : forall bs lasts,
  outcome (map Some bs) = bits_string bs /\ String.length (bits_string bs) = List.length bs /\
  (In None lasts -> outcome lasts = "?"%string).
Proof. intros bs lasts. exact (conj (outcome_bits bs) (conj (bits_length bs) (outcome_question lasts))). Qed.
Print Assumptions C17_outcome_shape.

Theorem C17_annotation_wins_over_flag : forall cli a, shots_decision cli (Some a) = (true, a).
Proof. exact annotation_wins. Qed.
Print Assumptions C17_annotation_wins_over_flag.

Theorem C17_echo_policy : forall m provided shots,
  echo_enabled m provided shots = true <->
  m = EchoAll \/ ((m = EchoDefault \/ m = EchoAuto) /\ (provided = false \/ shots = 1)).
Proof. exact echo_policy_spec. Qed.
Print Assumptions C17_echo_policy.

Local Open Scope string_scope.
Example ex_table :
  let ev := [("qubit q","1");("qubit[] r","01");("qubit q","1");("qubit q","?")] in
  tab_get "qubit q" "1" (shot_table ev) = 2 /\ tab_total "qubit q" (shot_table ev) = 3
  /\ tab_get "qubit q" "1" (aggregate [shot_table ev; shot_table ev; shot_table ev]) = 6.
Proof. vm_compute. auto. Qed.
