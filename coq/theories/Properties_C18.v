(* C18 - shots are isolated: an N-shot run equals N independent fresh runs.
   On the reference interpreter this holds by construction (a run is a function of the program, started
   from the empty state); what the theorems add is the reason the one piece of state the implementation
   does share between shots - the evaluated size cached in the syntax tree of a const-sized array - is
   harmless: a constant expression has the same value, or the same error, in every state and changes
   nothing.  That the implementation's shots really are isolated is decided by running each generated
   program N times on one parsed tree and as N fresh processes and comparing shot by shot. *)
From Coq Require Import List ZArith String Ascii Bool Arith.
From Bloch Require Import Lang.Syntax Lang.Eval Lang.ShotProps Tracked.Tracked.
Import ListNotations.

Theorem C18_each_shot_is_the_fresh_run :
  forall F (O : fops F) fuel n p k, (k < n)%nat -> nth_error (shots O fuel n p) k = Some (run O fuel p).
Proof. exact @shots_are_independent_runs. Qed.
Print Assumptions C18_each_shot_is_the_fresh_run.

Theorem C18_constant_expressions_ignore_the_state :
  forall F (O : fops F) fns cls depth n e s, const_expr e = true ->
    eval O fns cls depth n s e = lift (ceval O n e) s.
Proof. exact @const_eval_ignores_state. Qed.
Print Assumptions C18_constant_expressions_ignore_the_state.

Theorem C18_a_cached_constant_array_size_is_the_same_in_every_shot :
  forall F (O : fops F) fns cls depth n e s1 s2 v s1', const_expr e = true ->
    eval O fns cls depth n s1 e = Ok (v, s1') -> s1' = s1 /\ eval O fns cls depth n s2 e = Ok (v, s2).
Proof. exact @const_size_is_shot_invariant. Qed.
Print Assumptions C18_a_cached_constant_array_size_is_the_same_in_every_shot.
