(* C19 - imports resolve deterministically, load once, dependencies first, packages checked. *)
From Coq Require Import List Arith String.
From Bloch Require Import Loader.LoaderModel Loader.LoaderProofs Loader.LoaderCycle.
Import ListNotations.

(* every successful load, on every file system, search-path list, working directory and entry file:
   each module appears once in the merged order, every module a file imports (symbol or wildcard,
   the importer itself excepted) comes before that file and declares exactly the imported package,
   the entry is loaded, and exactly one main exists *)
Theorem C19_load_once_dependencies_first_packages_checked : forall fs cfg entry ord,
  load fs cfg entry = inl ord ->
  NoDup ord /\ In entry ord /\
  (forall q, In q ord -> forall t pkg, In (t, pkg) (deps fs cfg q) -> before t q ord /\ pkg_of fs t = pkg) /\
  total_mains fs ord = 1.
Proof. exact load_ok. Qed.
Print Assumptions C19_load_once_dependencies_first_packages_checked.

(* the root module bloch.lang.Object, loaded without being imported, is held to the rule of an import of it *)
Theorem C19_the_implicit_root_module_declares_its_package : forall fs cfg entry ord obj,
  load fs cfg entry = inl ord ->
  resolve_sym fs cfg ["bloch"; "lang"; "Object"]%string (parent entry) = Some obj ->
  pkg_eqb (pkg_of fs obj) ["bloch"; "lang"]%string = true.
Proof. exact load_checks_the_implicit_root. Qed.
Print Assumptions C19_the_implicit_root_module_declares_its_package.

(* resolution order: the first root, in the documented order, that has the file *)
Theorem C19_symbol_resolution_order : forall fs cfg parts from_dir t,
  resolve_sym fs cfg parts from_dir = Some t ->
  exists l1 b l2,
    (match parts with "bloch"%string :: _ :: _ => search cfg ++ [from_dir; cwd cfg] | _ => from_dir :: search cfg ++ [cwd cfg] end) = l1 ++ b :: l2 /\
    t = b ++ rel_file parts /\ lookup fs t <> None /\ forall b', In b' l1 -> lookup fs (b' ++ rel_file parts) = None.
Proof. intros fs cfg parts from_dir t H. rewrite <- bases_order. apply resolve_sym_first. exact H. Qed.
Print Assumptions C19_symbol_resolution_order.

(* a wildcard import takes the package directory of the first root, in the documented order, that holds a module,
   and takes every module of that directory *)
Theorem C19_wildcard_resolution_order : forall fs cfg pkg from_dir,
  resolve_wild fs cfg pkg from_dir <> [] ->
  exists l1 b l2,
    (match pkg with "bloch"%string :: _ => search cfg ++ [from_dir; cwd cfg] | _ => from_dir :: search cfg ++ [cwd cfg] end) = l1 ++ b :: l2 /\
    resolve_wild fs cfg pkg from_dir = dir_modules fs (b ++ pkg) /\ forall b', In b' l1 -> dir_modules fs (b' ++ pkg) = [].
Proof. exact resolve_wild_first. Qed.
Print Assumptions C19_wildcard_resolution_order.

(* the traversal always terminates: every import graph, cyclic or not, yields an order or a diagnostic *)
Theorem C19_loading_terminates : forall fs cfg entry, load fs cfg entry <> inr EFuel.
Proof. exact load_never_out_of_fuel. Qed.
Print Assumptions C19_loading_terminates.

(* "import cycle" is never a false alarm: it is answered only when some module reaches itself through one or
   more imports, as they resolve on this file system; and a load that succeeded has no such cycle through any
   module it loaded *)
Theorem C19_a_reported_cycle_is_a_cycle_of_the_import_graph : forall fs cfg entry,
  load fs cfg entry = inr ECycle -> exists c, reach fs cfg c c.
Proof. exact load_cycle_is_genuine. Qed.
Print Assumptions C19_a_reported_cycle_is_a_cycle_of_the_import_graph.

Theorem C19_a_successful_load_has_no_cycle_through_a_loaded_module : forall fs cfg entry ord c,
  load fs cfg entry = inl ord -> In c ord -> ~ reach fs cfg c c.
Proof. exact successful_load_has_no_cycle_through_a_loaded_module. Qed.
Print Assumptions C19_a_successful_load_has_no_cycle_through_a_loaded_module.

Local Open Scope string_scope.
Definition fs_diamond : fsys :=
  [(["proj"; "Main.bloch"], mkFile [] [ISym ["a"] "C"; ISym ["a"] "D"] 1);
   (["proj"; "a"; "C.bloch"], mkFile ["a"] [ISym ["a"] "E"] 0);
   (["proj"; "a"; "D.bloch"], mkFile ["a"] [ISym ["a"] "E"] 0);
   (["proj"; "a"; "E.bloch"], mkFile ["a"] [] 0)].
Example ex_diamond : load fs_diamond (mkCfg [] ["proj"]) ["proj"; "Main.bloch"]
  = inl [["proj"; "a"; "E.bloch"]; ["proj"; "a"; "C.bloch"]; ["proj"; "a"; "D.bloch"]; ["proj"; "Main.bloch"]].
Proof. vm_compute. reflexivity. Qed.
Definition fs_cycle : fsys :=
  [(["proj"; "Main.bloch"], mkFile [] [ISym ["a"] "C"] 1);
   (["proj"; "a"; "C.bloch"], mkFile ["a"] [ISym ["a"] "D"] 0);
   (["proj"; "a"; "D.bloch"], mkFile ["a"] [ISym ["a"] "C"] 0)].
Example ex_cycle : load fs_cycle (mkCfg [] ["proj"]) ["proj"; "Main.bloch"] = inr ECycle.
Proof. vm_compute. reflexivity. Qed.
