(* C20 - self-update decisions.  Property theorems only; proofs live in Update/UpdateProofs.v *)
From Coq Require Import List ZArith Ascii String.
From Bloch Require Import Update.UpdateModel Update.UpdateProofs.
Import ListNotations.
Local Open Scope Z_scope.

(* versions are compared numerically as (major, minor, patch) triples: a strict total order *)
Theorem C20_compare_is_lexicographic : forall a b,
  (cmp3 a b = -1 <-> lex_lt a b) /\ (cmp3 a b = 0 <-> same_triple a b) /\ (cmp3 a b = 1 <-> lex_lt b a).
Proof. intros a b. exact (conj (cmp3_lt a b) (conj (cmp3_eq a b) (cmp3_gt a b))). Qed.
Print Assumptions C20_compare_is_lexicographic.

Theorem C20_compare_antisym_trans : forall a b c,
  cmp3 a b = - cmp3 b a /\ (cmp3 a b = -1 -> cmp3 b c = -1 -> cmp3 a c = -1).
Proof. intros a b c. exact (conj (cmp3_antisym a b) (cmp3_trans a b c)). Qed.
Print Assumptions C20_compare_antisym_trans.

(* "a.b.c<suffix>" denotes exactly the numeric triple (every length of digit run) *)
Theorem C20_parse_full_triple : forall d1 d2 d3 suffix,
  all_digits d1 -> all_digits d2 -> all_digits d3 -> d1 <> [] -> d2 <> [] -> d3 <> [] -> tail_ok suffix = true ->
  digits_value d1 <= INT_MAX -> digits_value d2 <= INT_MAX -> digits_value d3 <= INT_MAX ->
  parse_loop 3 0 (d1 ++ dot :: d2 ++ dot :: d3 ++ suffix) sem0 =
  {| major := digits_value d1; minor := digits_value d2; patch := digits_value d3; valid := true |}.
Proof. exact parse_full_triple. Qed.
Print Assumptions C20_parse_full_triple.

(* which strings are versions at all: exactly [v]MAJOR[.MINOR[.PATCH]] followed by nothing or by a '-'/'+' suffix of
   letters, digits, '.', '-', '+'.  A commit hash ("37b3341"), "2.x", "1..2", a fourth component or trailing text is
   not one, so (C20_no_action_on_unparsable, C20_notice_only_if_newer) nothing is ever done about it *)
Theorem C20_a_string_is_a_version_exactly_when_it_has_the_shape : forall t,
  valid (parse_loop 3 0 t sem0) = true <-> shape 3 t.
Proof. exact parse_valid_iff_shape. Qed.
Print Assumptions C20_a_string_is_a_version_exactly_when_it_has_the_shape.

(* never crashes on a version string: every stored component fits an int; an oversized or
   digit-less string is unparsable rather than an exception or a wrapped number *)
Theorem C20_parse_never_traps : forall s, comp_ok (parse_semver s).
Proof. exact parse_semver_components_int. Qed.
Print Assumptions C20_parse_never_traps.

Theorem C20_parse_overflow_unparsable : forall ds rest,
  all_digits ds -> ds <> [] -> stops rest -> INT_MAX < digits_value ds ->
  valid (parse_loop 3 0 (ds ++ rest) sem0) = false.
Proof. exact parse_overflow_invalid. Qed.
Print Assumptions C20_parse_overflow_unparsable.

(* installs only a strictly newer release; "already latest" otherwise; never acts on an
   unparsable string *)
Theorem C20_install_only_if_strictly_newer : forall cur lat,
  update_action cur lat = Install \/ update_action cur lat = PromptMajor ->
  both_valid cur lat /\ lex_lt (parse_semver cur) (parse_semver lat).
Proof. exact install_only_if_strictly_newer. Qed.
Print Assumptions C20_install_only_if_strictly_newer.

Theorem C20_already_latest_iff : forall cur lat,
  update_action cur lat = AlreadyLatest <-> both_valid cur lat /\ ~ lex_lt (parse_semver cur) (parse_semver lat).
Proof. exact already_latest_iff. Qed.
Print Assumptions C20_already_latest_iff.

Theorem C20_no_action_on_unparsable : forall cur lat,
  update_action cur lat = Refuse <-> ~ both_valid cur lat.
Proof. exact refuse_iff_unparsable. Qed.
Print Assumptions C20_no_action_on_unparsable.

(* checksum: the hash returned is the first field of the first line whose name field is
   exactly the asset (modulo sha256sum's '*'); none if no such line *)
Theorem C20_checksum_exact_line : forall ls asset h,
  find_checksum ls asset = Some h ->
  exists pre l post, ls = pre ++ l :: post /\ line_entry l = Some (h, asset) /\
    (forall l', In l' pre -> forall h', line_entry l' <> Some (h', asset)).
Proof. exact find_checksum_sound. Qed.
Print Assumptions C20_checksum_exact_line.

Theorem C20_checksum_missing : forall ls asset,
  find_checksum ls asset = None <-> (forall l h, In l ls -> line_entry l <> Some (h, asset)).
Proof. exact find_checksum_none. Qed.
Print Assumptions C20_checksum_missing.

(* what "the name field of a line" is: everything after the digest, the blanks and an optional '*', up to the end of the
   line but for trailing blanks - so a line listing "<asset> (1)" or "<asset> old" is not a line for the asset *)
Theorem C20_the_listed_name_is_the_whole_rest_of_the_line : forall l h n,
  line_entry l = Some (h, n) ->
  exists sp1 sp2 st sp3,
    l = sp1 ++ h ++ sp2 ++ st ++ n ++ sp3 /\ blanks sp1 /\ blanks sp2 /\ sp2 <> [] /\ blanks sp3 /\
    (st = [] \/ st = ["*"%char]) /\ h <> [] /\ n <> [] /\ forallb (fun c => negb (is_space c)) h = true.
Proof. exact line_entry_shape. Qed.
Print Assumptions C20_the_listed_name_is_the_whole_rest_of_the_line.

(* an archive is installed only after it was verified against the digest listed for exactly its name: with no
   checksums.txt, or no line for the asset, or a different digest, --update stops *)
Theorem C20_install_only_after_verification_against_the_listed_digest : forall content asset actual,
  checksum_verdict content asset actual = Verified ->
  exists c h pre l post, content = Some c /\ lines c = pre ++ l :: post /\ line_entry l = Some (h, asset) /\
    (forall l', In l' pre -> forall h', line_entry l' <> Some (h', asset)) /\ map lower h = actual.
Proof. exact verified_only_against_the_listed_line. Qed.
Print Assumptions C20_install_only_after_verification_against_the_listed_digest.

(* in every invocation history, from any cache file, notices are >= 72 h apart, are only
   about strictly newer releases, and never appear when checks are disabled *)
Theorem C20_notices_72h_apart : forall disk is, spaced (fst (run_invocations disk is)).
Proof. exact notices_spaced. Qed.
Print Assumptions C20_notices_72h_apart.

Theorem C20_notice_only_if_newer : forall latest cur t c c',
  maybe_notice latest cur t c = (true, c') ->
  both_valid cur latest /\ lex_lt (parse_semver cur) (parse_semver latest).
Proof. exact notice_implies_newer. Qed.
Print Assumptions C20_notice_only_if_newer.

Theorem C20_disabled_is_silent : forall disk i,
  skip_env i = true -> check_for_updates disk i = ([], disk).
Proof. exact skip_env_silent. Qed.
Print Assumptions C20_disabled_is_silent.

(* a cache file that cannot be written: no notice (its time could not be stored, so it would be repeated) *)
Theorem C20_unwritable_cache_is_silent : forall disk i,
  writable i = false -> check_for_updates disk i = ([], disk).
Proof. exact unwritable_silent. Qed.
Print Assumptions C20_unwritable_cache_is_silent.

(* non-vacuity: concrete strings and a concrete history exercise the premises *)
Definition s (x : string) : list ascii := list_ascii_of_string x.
(* the clock is finer than the cache file (whole seconds): a time written rounded up is never earlier than the moment it
   records, so "72 h since the stored time" implies 72 h of real time; written truncated - as the code did - it does not
   (witness: notices at 1700000000.9 s and 1700259200.1 s) *)
Theorem C20_times_stored_rounded_up_keep_the_window_in_real_time : forall t1 t2 w,
  t2 - stored_up t1 >= w -> t2 - t1 >= w.
Proof. exact stored_up_spacing. Qed.
Print Assumptions C20_times_stored_rounded_up_keep_the_window_in_real_time.

Theorem C20_times_stored_truncated_refuted : exists t1 t2 w, t2 - stored_down t1 >= w /\ ~ (t2 - t1 >= w).
Proof. exact stored_down_refuted. Qed.
Print Assumptions C20_times_stored_truncated_refuted.

(* the cache file is line-oriented: a tag with a line break inside is treated as no tag at all, so what is read back from
   the cache is what a lookup returned, never a prefix of it *)
Theorem C20_a_tag_kept_in_the_cache_is_a_single_line : forall i t, fetched i = Some t -> existsb is_eol t = false.
Proof. exact fetched_single_line. Qed.
Print Assumptions C20_a_tag_kept_in_the_cache_is_a_single_line.

Example ex_install : update_action (s "v1.2.3") (s "1.10.0") = Install. Proof. reflexivity. Qed.
Example ex_prompt : update_action (s "1.9.9-rc1") (s "v2.0.0") = PromptMajor. Proof. reflexivity. Qed.
Example ex_latest : update_action (s "1.2.3") (s "v1.2.3") = AlreadyLatest. Proof. reflexivity. Qed.
Example ex_refuse1 : update_action (s "1.2.3") (s "nightly") = Refuse. Proof. reflexivity. Qed.
Example ex_refuse3 : update_action (s "37b3341") (s "v1.9.5") = Refuse /\ update_action (s "1.0.0") (s "2.x") = Refuse /\
                     update_action (s "1.0.0") (s "1.2.3.4") = Refuse /\ update_action (s "1.0.0") (s "v9.9.9$(touch x)") = Refuse.
Proof. vm_compute. repeat split. Qed.
Example ex_suffix : update_action (s "v1.0.2-14-g37b3341") (s "v1.1.0+build.5 ") = Install. Proof. vm_compute. reflexivity. Qed.
Example ex_refuse2 : update_action (s "1.2.3") (s "1.99999999999.0") = Refuse. Proof. vm_compute. reflexivity. Qed.
Example ex_checksum :
  parse_checksum (s ("aaa  bloch-v1-Linux-X64.tar.gz.sig" ++ String (ascii_of_nat 10) "bbb *bloch-v1-Linux-X64.tar.gz"))
                 (s "bloch-v1-Linux-X64.tar.gz") = Some (s "bbb").
Proof. vm_compute. reflexivity. Qed.
Example ex_checksum_other_file :
  parse_checksum (s ("aaa  bloch-v1-Linux-X64.tar.gz (1)" ++ String (ascii_of_nat 10) "bbb  bloch-v1-Linux-X64.tar.gz old"))
                 (s "bloch-v1-Linux-X64.tar.gz") = None /\
  parse_checksum (s ("aaa  bloch-v1-Linux-X64.tar.gz (1)" ++ String (ascii_of_nat 10) ("bbb  bloch-v1-Linux-X64.tar.gz" ++ String (ascii_of_nat 13) "")))
                 (s "bloch-v1-Linux-X64.tar.gz") = Some (s "bbb").
Proof. vm_compute. split; reflexivity. Qed.
Example ex_history :
  let inv t := {| now := t; skip_env := false; writable := true; curv := s "1.0.0"; fetch := Some (s "1.1.0") |} in
  fst (run_invocations None [inv 1700000000; inv 1700002000; inv (1700000000 + WINDOW); inv (1700000001 + WINDOW)]) = [1700000000; 1700000000 + WINDOW].
Proof. vm_compute. reflexivity. Qed.
