(* The triple loop of QasmSimulator::cx computes the controlled-NOT permutation. *)
From Coq Require Import List Arith Lia PeanoNat Bool.
From Bloch Require Import Common.ListUpd Sim.SimModel Sim.SimLoops.
Import ListNotations.

(* ---------- bit-or of disjoint fields is addition ---------- *)
Lemma small_bits_high x k i : x < 2 ^ k -> k <= i -> Nat.testbit x i = false.
Proof.
  intros Hx Hi. rewrite <- (Nat.mod_small x (2 ^ k)) by assumption.
  apply Nat.mod_pow2_bits_high. assumption.
Qed.

Lemma land_mul_pow2_small a k x : x < 2 ^ k -> Nat.land (a * 2 ^ k) x = 0.
Proof.
  intros Hx. apply Nat.bits_inj. intros i. rewrite Nat.land_spec, Nat.bits_0.
  destruct (Nat.lt_ge_cases i k) as [Hi|Hi].
  - rewrite Nat.mul_pow2_bits_low by assumption. reflexivity.
  - rewrite (small_bits_high x k i) by assumption. apply andb_false_r.
Qed.

Lemma lor_add a k x : x < 2 ^ k -> Nat.lor (a * 2 ^ k) x = a * 2 ^ k + x.
Proof.
  intros Hx. pose proof (land_mul_pow2_small a k x Hx) as H.
  rewrite (Nat.add_nocarry_lxor _ _ H). symmetry. apply Nat.lxor_lor. assumption.
Qed.

Lemma lor_pow2_add k x : x < 2 ^ k -> Nat.lor x (2 ^ k) = 2 ^ k + x.
Proof. intros Hx. rewrite Nat.lor_comm. rewrite <- (Nat.mul_1_l (2 ^ k)) at 1. rewrite lor_add by assumption. lia. Qed.

Lemma pow2_split a b : a <= b -> 2 ^ b = 2 ^ (b - a) * 2 ^ a.
Proof. intros H. rewrite <- Nat.pow_add_r. f_equal. lia. Qed.

(* ---------- index arithmetic of the loop body ---------- *)
Section CxIdx.
  Variables l h : nat.
  Hypothesis Hlh : l < h.

  Lemma P1 : 2 ^ (h + 1) = 2 * 2 ^ h.
  Proof. rewrite Nat.add_1_r. reflexivity. Qed.
  Lemma P2 : 2 ^ (l + 1) = 2 * 2 ^ l.
  Proof. rewrite Nat.add_1_r. reflexivity. Qed.
  Lemma P3 : 2 ^ h = 2 ^ (h - l - 1) * 2 ^ (l + 1).
  Proof. rewrite <- Nat.pow_add_r. f_equal. lia. Qed.
  Lemma P4 : 2 ^ (h + 1) = 2 ^ (h - l) * 2 ^ (l + 1).
  Proof. rewrite <- Nat.pow_add_r. f_equal. lia. Qed.

  Lemma mid_bound m o : m < 2 ^ (h - l - 1) -> o < 2 ^ (l + 1) -> m * 2 ^ (l + 1) + o < 2 ^ h.
  Proof. intros Hm Ho. rewrite P3. nia. Qed.

  Lemma base_arith b m o : m < 2 ^ (h - l - 1) -> o < 2 ^ l ->
    Nat.lor (Nat.lor (b * 2 ^ (h + 1)) (Nat.shiftl m (l + 1))) o = b * 2 ^ (h + 1) + m * 2 ^ (l + 1) + o.
  Proof.
    intros Hm Ho. rewrite Nat.shiftl_mul_pow2.
    pose proof (pow2_pos l). pose proof (pow2_pos h). pose proof P1. pose proof P2.
    pose proof (mid_bound m 0 Hm).
    rewrite (lor_add b (h + 1) (m * 2 ^ (l + 1))) by lia.
    replace (b * 2 ^ (h + 1) + m * 2 ^ (l + 1)) with ((b * 2 ^ (h - l) + m) * 2 ^ (l + 1)) by (rewrite P4; ring).
    rewrite lor_add by lia. reflexivity.
  Qed.

  Lemma base_low_clear b m o : m < 2 ^ (h - l - 1) -> o < 2 ^ l ->
    Nat.lor (b * 2 ^ (h + 1) + m * 2 ^ (l + 1) + o) (2 ^ l) = b * 2 ^ (h + 1) + m * 2 ^ (l + 1) + o + 2 ^ l.
  Proof.
    intros Hm Ho. pose proof (pow2_pos l). pose proof P2.
    replace (b * 2 ^ (h + 1) + m * 2 ^ (l + 1) + o) with (Nat.lor ((b * 2 ^ (h - l) + m) * 2 ^ (l + 1)) o).
    2:{ rewrite lor_add by lia. rewrite P4. ring. }
    rewrite <- Nat.lor_assoc, (lor_pow2_add l o Ho).
    rewrite !lor_add by lia. lia.
  Qed.

  Lemma high_clear b y : y < 2 ^ h -> Nat.lor (b * 2 ^ (h + 1) + y) (2 ^ h) = b * 2 ^ (h + 1) + y + 2 ^ h.
  Proof.
    intros Hy. pose proof (pow2_pos h). pose proof P1.
    replace (b * 2 ^ (h + 1) + y) with (Nat.lor (b * 2 ^ (h + 1)) y) by (rewrite lor_add by lia; reflexivity).
    rewrite <- Nat.lor_assoc, (lor_pow2_add h y Hy).
    rewrite !lor_add by lia. lia.
  Qed.

  Lemma low_clear_with_high b m o : m < 2 ^ (h - l - 1) -> o < 2 ^ l ->
    Nat.lor (b * 2 ^ (h + 1) + m * 2 ^ (l + 1) + o + 2 ^ h) (2 ^ l)
    = b * 2 ^ (h + 1) + m * 2 ^ (l + 1) + o + 2 ^ h + 2 ^ l.
  Proof.
    intros Hm Ho. pose proof (pow2_pos l). pose proof (pow2_pos h). pose proof P2.
    assert (E : b * 2 ^ (h + 1) + m * 2 ^ (l + 1) + o + 2 ^ h
                = Nat.lor (((2 * b + 1) * 2 ^ (h - l - 1) + m) * 2 ^ (l + 1)) o).
    { rewrite lor_add by lia. rewrite P1. rewrite P3 at 1 2. ring. }
    rewrite E, <- Nat.lor_assoc, (lor_pow2_add l o Ho).
    rewrite !lor_add by lia. lia.
  Qed.
End CxIdx.

(* the loop-body indices, in arithmetic form, for both control/target orders *)
Lemma cx_idx_low c t b m o :
  c < t -> m < 2 ^ (t - c - 1) -> o < 2 ^ c ->
  cx_idx c t b m o =
  (b * 2 ^ (t + 1) + m * 2 ^ (c + 1) + o + 2 ^ c, b * 2 ^ (t + 1) + m * 2 ^ (c + 1) + o + 2 ^ c + 2 ^ t).
Proof.
  intros Hct Hm Ho. unfold cx_idx.
  rewrite (Nat.min_l c t) by lia. rewrite (Nat.max_r c t) by lia. rewrite Nat.eqb_refl.
  rewrite (base_arith c t Hct) by assumption.
  rewrite (base_low_clear c t Hct) by assumption.
  f_equal.
  replace (b * 2 ^ (t + 1) + m * 2 ^ (c + 1) + o + 2 ^ c) with (b * 2 ^ (t + 1) + (m * 2 ^ (c + 1) + o + 2 ^ c)) by lia.
  rewrite (high_clear c t Hct); [lia|].
  pose proof (mid_bound c t Hct m (o + 2 ^ c) Hm).
  assert (o + 2 ^ c < 2 ^ (c + 1)) by (rewrite Nat.add_1_r; cbn; lia). lia.
Qed.

Lemma cx_idx_high c t b m o :
  t < c -> m < 2 ^ (c - t - 1) -> o < 2 ^ t ->
  cx_idx c t b m o =
  (b * 2 ^ (c + 1) + m * 2 ^ (t + 1) + o + 2 ^ c, b * 2 ^ (c + 1) + m * 2 ^ (t + 1) + o + 2 ^ c + 2 ^ t).
Proof.
  intros Hct Hm Ho. unfold cx_idx.
  rewrite (Nat.min_r c t) by lia. rewrite (Nat.max_l c t) by lia.
  assert (E : (c =? t) = false) by (apply Nat.eqb_neq; lia). rewrite E.
  rewrite (base_arith t c Hct) by assumption.
  replace (b * 2 ^ (c + 1) + m * 2 ^ (t + 1) + o) with (b * 2 ^ (c + 1) + (m * 2 ^ (t + 1) + o)) by lia.
  rewrite (high_clear t c Hct).
  2:{ pose proof (mid_bound t c Hct m o Hm). assert (o < 2 ^ (t + 1)) by (rewrite Nat.add_1_r; cbn; lia). lia. }
  replace (b * 2 ^ (c + 1) + (m * 2 ^ (t + 1) + o) + 2 ^ c) with (b * 2 ^ (c + 1) + m * 2 ^ (t + 1) + o + 2 ^ c) by lia.
  rewrite (low_clear_with_high t c Hct) by assumption. reflexivity.
Qed.

(* ---------- the visited indices as a filtered enumeration ---------- *)
Lemma fold_left_ext_in {A B} (f g : A -> B -> A) l :
  (forall x, In x l -> forall a, f a x = g a x) -> forall a, fold_left f l a = fold_left g l a.
Proof.
  induction l as [|b l IH]; intros H a; cbn [fold_left]; auto.
  rewrite H by (left; reflexivity). apply IH. intros x Hx. apply H. right. assumption.
Qed.

Lemma map_flat_map' {A B C} (f : B -> C) (g : A -> list B) l :
  map f (flat_map g l) = flat_map (fun x => map f (g x)) l.
Proof. induction l as [|a l IH]; cbn; auto. rewrite map_app, IH. reflexivity. Qed.

Lemma flat_map_ext_in' {A B} (f g : A -> list B) l :
  (forall x, In x l -> f x = g x) -> flat_map f l = flat_map g l.
Proof.
  induction l as [|a l IH]; intros H; cbn; auto.
  rewrite H by (left; reflexivity). f_equal. apply IH. intros x Hx. apply H. right. assumption.
Qed.

(* one half of [0, 2s), selected by a boolean, with a residual predicate *)
Lemma half_filter (s : nat) (ob : bool) (Q Q2 : nat -> bool) :
  (forall y, y < s -> Q2 ((if ob then s else 0) + y) = Q y) ->
  filter (fun r => Bool.eqb (s <=? r) ob && Q2 r) (seq 0 (2 * s))
  = map (fun y => (if ob then s else 0) + y) (filter Q (seq 0 s)).
Proof.
  intros HQ. replace (2 * s) with (s + s) by lia. rewrite seq_app, filter_app. cbn [plus].
  destruct ob.
  - rewrite filter_none.
    2:{ intros x Hx. apply in_seq in Hx. assert (E : (s <=? x) = false) by (apply Nat.leb_gt; lia). rewrite E. reflexivity. }
    cbn [app]. rewrite (seq_as_map s s), filter_map_comm. f_equal.
    apply filter_ext_in. intros y Hy. apply in_seq in Hy.
    assert (E : (s <=? s + y) = true) by (apply Nat.leb_le; lia). rewrite E. cbn. apply HQ. lia.
  - rewrite (filter_none _ (seq s s)).
    2:{ intros x Hx. apply in_seq in Hx. assert (E : (s <=? x) = true) by (apply Nat.leb_le; lia). rewrite E. reflexivity. }
    rewrite app_nil_r. rewrite map_ext with (g := fun y => y) by reflexivity. rewrite map_id.
    apply filter_ext_in. intros y Hy. apply in_seq in Hy.
    assert (E : (s <=? y) = false) by (apply Nat.leb_gt; lia). rewrite E. cbn. apply (HQ y). lia.
Qed.

Section CxList.
  Variables l h : nat.
  Hypothesis Hlh : l < h.
  Variables ib ob : bool.       (* value of bit l / bit h in every visited index *)

  Definition offi : nat := if ib then 2 ^ l else 0.
  Definition offo : nat := if ob then 2 ^ h else 0.

  Definition cxl (nb : nat) : list nat :=
    flat_map (fun b =>
      flat_map (fun m =>
        map (fun o => b * 2 ^ (h + 1) + m * 2 ^ (l + 1) + o + offi + offo) (seq 0 (2 ^ l)))
        (seq 0 (2 ^ (h - l - 1))))
      (seq 0 nb).

  Definition Pin (j : nat) : bool := Bool.eqb (2 ^ l <=? j) ib.
  Definition Pout (r : nat) : bool := Bool.eqb (2 ^ h <=? r) ob && Pin (r mod 2 ^ (l + 1)).

  Lemma inner_list :
    filter (fun j => Pin j && true) (seq 0 (2 * 2 ^ l)) = map (fun o => offi + o) (seq 0 (2 ^ l)).
  Proof.
    unfold Pin, offi. rewrite (half_filter (2 ^ l) ib (fun _ => true) (fun _ => true)) by reflexivity.
    f_equal. apply filter_all. reflexivity.
  Qed.

  Lemma level2 :
    flat_map (fun m => map (fun o => m * 2 ^ (l + 1) + (offi + o)) (seq 0 (2 ^ l))) (seq 0 (2 ^ (h - l - 1)))
    = filter (fun r => Pin (r mod 2 ^ (l + 1))) (seq 0 (2 ^ h)).
  Proof.
    pose proof (pow2_pos (l + 1)) as Hw.
    rewrite (P3 l h Hlh). rewrite <- (blocks_filter (2 ^ (l + 1)) Hw Pin).
    unfold blocks. apply flat_map_ext_in'. intros m _.
    rewrite <- (map_map (fun o => offi + o) (fun j => m * 2 ^ (l + 1) + j)).
    rewrite <- inner_list. rewrite (P2 l).
    f_equal. apply filter_ext. intros j. apply andb_true_r.
  Qed.

  Lemma cxl_blocks nb : cxl nb = blocks (2 ^ (h + 1)) Pout nb.
  Proof.
    unfold cxl, blocks. apply flat_map_ext_in'. intros b _.
    assert (E : filter Pout (seq 0 (2 ^ (h + 1)))
                = map (fun y => offo + y) (filter (fun r => Pin (r mod 2 ^ (l + 1))) (seq 0 (2 ^ h)))).
    { rewrite (P1 h). unfold Pout, offo. apply half_filter. intros y Hy.
      destruct ob; [|reflexivity].
      f_equal. rewrite (P3 l h Hlh). rewrite Nat.add_comm, Nat.mod_add by (pose proof (pow2_pos (l + 1)); lia).
      reflexivity. }
    rewrite E, <- level2, map_flat_map', map_flat_map'.
    apply flat_map_ext_in'. intros m _. rewrite !map_map. apply map_ext. intros o. lia.
  Qed.

  Lemma mod_mod_w1 k : (k mod 2 ^ (h + 1)) mod 2 ^ (l + 1) = k mod 2 ^ (l + 1).
  Proof.
    pose proof (pow2_pos (l + 1)). pose proof (pow2_pos (h - l)).
    rewrite (P4 l h Hlh). rewrite (Nat.mul_comm (2 ^ (h - l))).
    rewrite Nat.mod_mul_r by lia.
    rewrite (Nat.mul_comm (2 ^ (l + 1))), Nat.mod_add by lia. apply Nat.mod_mod. lia.
  Qed.

  Lemma In_cxl n k : h < n ->
    In k (cxl (2 ^ (n - h - 1))) <-> k < 2 ^ n /\ Nat.testbit k h = ob /\ Nat.testbit k l = ib.
  Proof.
    intros Hn. rewrite cxl_blocks. pose proof (pow2_pos (h + 1)) as HW.
    rewrite (In_blocks _ HW).
    assert (E : 2 ^ (n - h - 1) * 2 ^ (h + 1) = 2 ^ n) by (rewrite <- Nat.pow_add_r; f_equal; lia).
    rewrite E. unfold Pout, Pin. rewrite mod_mod_w1.
    rewrite !testbit_mod. rewrite <- (P1 h), <- (P2 l).
    assert (A : forall a b : nat, negb (a <? b) = (b <=? a)).
    { intros a b. destruct (Nat.ltb_spec a b), (Nat.leb_spec b a); auto; lia. }
    rewrite !A. rewrite andb_true_iff, !eqb_true_iff. tauto.
  Qed.

  Lemma NoDup_cxl nb : NoDup (cxl nb).
  Proof. rewrite cxl_blocks. apply NoDup_blocks. apply pow2_pos. Qed.
End CxList.

(* ---------- setting / clearing one bit by addition / subtraction ---------- *)
Lemma land_pow2_clear x t : Nat.testbit x t = false -> Nat.land x (2 ^ t) = 0.
Proof.
  intros H. apply Nat.bits_inj. intros i. rewrite Nat.land_spec, Nat.bits_0, Nat.pow2_bits_eqb.
  destruct (Nat.eqb_spec t i) as [->|]; [rewrite H; reflexivity|apply andb_false_r].
Qed.

Lemma add_pow2_bits x t i :
  Nat.testbit x t = false -> Nat.testbit (x + 2 ^ t) i = if i =? t then true else Nat.testbit x i.
Proof.
  intros H. pose proof (land_pow2_clear x t H) as HL.
  rewrite (Nat.add_nocarry_lxor _ _ HL), (Nat.lxor_lor _ _ HL), Nat.lor_spec, Nat.pow2_bits_eqb.
  rewrite (Nat.eqb_sym t i). destruct (i =? t) eqn:E; [apply orb_true_r|apply orb_false_r].
Qed.

Lemma clear_bit_sub k t :
  Nat.testbit k t = true ->
  exists x, k = x + 2 ^ t /\ Nat.testbit x t = false.
Proof.
  intros H. exists (Nat.ldiff k (2 ^ t)).
  assert (Hx : Nat.testbit (Nat.ldiff k (2 ^ t)) t = false).
  { rewrite Nat.ldiff_spec, Nat.pow2_bits_eqb, Nat.eqb_refl. apply andb_false_r. }
  split; [|exact Hx].
  pose proof (land_pow2_clear _ t Hx) as HL.
  rewrite (Nat.add_nocarry_lxor _ _ HL), (Nat.lxor_lor _ _ HL).
  apply Nat.bits_inj. intros i. rewrite Nat.lor_spec, Nat.ldiff_spec, Nat.pow2_bits_eqb.
  destruct (Nat.eqb_spec t i) as [->|]; cbn.
  - rewrite H. reflexivity.
  - rewrite andb_true_r, orb_false_r. reflexivity.
Qed.

Lemma bit_clear_add_lt n t k : t < n -> k < 2 ^ n -> Nat.testbit k t = false -> k + 2 ^ t < 2 ^ n.
Proof.
  intros Ht Hk Hb. rewrite testbit_mod in Hb. apply negb_false_iff, Nat.ltb_lt in Hb.
  pose proof (pow2_pos t) as Hp.
  assert (E : 2 ^ n = 2 ^ (n - t - 1) * (2 * 2 ^ t)).
  { replace (2 * 2 ^ t) with (2 ^ (S t)) by (cbn; lia). rewrite <- Nat.pow_add_r. f_equal. lia. }
  pose proof (Nat.div_mod k (2 * 2 ^ t) ltac:(lia)) as D.
  assert (Q : k / (2 * 2 ^ t) < 2 ^ (n - t - 1)) by (apply Nat.div_lt_upper_bound; lia).
  nia.
Qed.

(* ---------- cx ---------- *)
Section CxMain.
  Context {F : Type} (O : sops F).
  Notation C := (C (F:=F)).
  Definition sw0 (a0 a1 : C) : C := a1.
  Definition sw1 (a0 a1 : C) : C := a0.

  Lemma swap_step_generic st i s :
    swap_step O st i (i + s) = gpair_step C (c0 O) sw0 sw1 s st i.
  Proof. reflexivity. Qed.

  Lemma cx_model_length c t st : length (cx_model O c t st) = length st.
  Proof.
    unfold cx_model. cbv zeta.
    assert (Hs : forall st i0 i1, length (swap_step O st i0 i1) = length st)
      by (intros; unfold swap_step; now rewrite !upd_length).
    generalize (seq 0 (length st / 2 ^ (Nat.max c t + 1))). intros l1. revert st.
    induction l1 as [|b l1 IH1]; intros st; cbn [fold_left]; auto. rewrite IH1.
    generalize (seq 0 (if Nat.min c t + 1 <? Nat.max c t then 2 ^ (Nat.max c t - Nat.min c t - 1) else 1)).
    intros l2. revert st. induction l2 as [|m l2 IH2]; intros st; cbn [fold_left]; auto. rewrite IH2.
    generalize (seq 0 (2 ^ Nat.min c t)). intros l3. revert st.
    induction l3 as [|o l3 IH3]; intros st; cbn [fold_left]; auto. rewrite IH3.
    destruct (cx_idx c t b m o). apply Hs.
  Qed.

  (* the loop nest is a fold of swaps over the filtered enumeration *)
  Lemma cx_model_fold n c t st (l := Nat.min c t) (h := Nat.max c t) :
    c < n -> t < n -> c <> t -> length st = 2 ^ n ->
    cx_model O c t st =
    fold_left (gpair_step C (c0 O) sw0 sw1 (2 ^ t))
              (cxl l h (c <? t) (t <? c) (2 ^ (n - h - 1))) st.
  Proof.
    intros Hc Ht Hne Hlen. unfold cx_model. cbv zeta. fold l h.
    assert (Hlh : l < h) by (unfold l, h; lia).
    assert (Hh : h < n) by (unfold h; lia).
    assert (Ebs : (if l + 1 <? h then 2 ^ (h - l - 1) else 1) = 2 ^ (h - l - 1)).
    { destruct (Nat.ltb_spec (l + 1) h); [reflexivity|]. replace (h - l - 1) with 0 by lia. reflexivity. }
    rewrite Ebs, Hlen.
    assert (Enb : 2 ^ n / 2 ^ (h + 1) = 2 ^ (n - h - 1)).
    { replace (2 ^ n) with (2 ^ (n - h - 1) * 2 ^ (h + 1)) by (rewrite <- Nat.pow_add_r; f_equal; lia).
      apply Nat.div_mul. pose proof (pow2_pos (h + 1)). lia. }
    rewrite Enb.
    unfold cxl.
    rewrite <- (fold_left_flat_map (gpair_step C (c0 O) sw0 sw1 (2 ^ t))).
    apply fold_left_ext_in. intros b _ a.
    rewrite <- (fold_left_flat_map (gpair_step C (c0 O) sw0 sw1 (2 ^ t))).
    apply fold_left_ext_in. intros m Hm a1. apply in_seq in Hm.
    rewrite fold_left_map'.
    apply fold_left_ext_in. intros o Ho a2. apply in_seq in Ho.
    destruct (Nat.lt_ge_cases c t) as [Hct|Hct].
    - assert (El : l = c) by (unfold l; lia). assert (Eh : h = t) by (unfold h; lia).
      rewrite El, Eh in *.
      rewrite (cx_idx_low c t b m o) by lia.
      assert (E1 : (c <? t) = true) by (apply Nat.ltb_lt; lia).
      assert (E2 : (t <? c) = false) by (apply Nat.ltb_ge; lia).
      unfold offi, offo. rewrite E1, E2. rewrite Nat.add_0_r. apply swap_step_generic.
    - assert (Htc : t < c) by lia.
      assert (El : l = t) by (unfold l; lia). assert (Eh : h = c) by (unfold h; lia).
      rewrite El, Eh in *.
      rewrite (cx_idx_high c t b m o) by lia.
      assert (E1 : (c <? t) = false) by (apply Nat.ltb_ge; lia).
      assert (E2 : (t <? c) = true) by (apply Nat.ltb_lt; lia).
      unfold offi, offo. rewrite E1, E2. rewrite Nat.add_0_r. apply swap_step_generic.
  Qed.

  Theorem cx_model_spec n c t st :
    c < n -> t < n -> c <> t -> length st = 2 ^ n ->
    forall k, k < 2 ^ n -> nth k (cx_model O c t st) (c0 O) = cx_spec O c t st k.
  Proof.
    intros Hc Ht Hne Hlen k Hk.
    rewrite (cx_model_fold n) by assumption.
    set (l := Nat.min c t). set (h := Nat.max c t).
    assert (Hlh : l < h) by (unfold l, h; lia).
    assert (Hh : h < n) by (unfold h; lia).
    set (L := cxl l h (c <? t) (t <? c) (2 ^ (n - h - 1))).
    (* membership in terms of the control and target bits *)
    assert (HinL : forall i, In i L <-> i < 2 ^ n /\ Nat.testbit i c = true /\ Nat.testbit i t = false).
    { intros i. unfold L. rewrite (In_cxl l h Hlh _ _ n i Hh).
      destruct (Nat.lt_ge_cases c t) as [Hct|Hct].
      - assert (El : l = c) by (unfold l; lia). assert (Eh : h = t) by (unfold h; lia).
        assert (E1 : (c <? t) = true) by (apply Nat.ltb_lt; lia).
        assert (E2 : (t <? c) = false) by (apply Nat.ltb_ge; lia).
        rewrite El, Eh, E1, E2. tauto.
      - assert (El : l = t) by (unfold l; lia). assert (Eh : h = c) by (unfold h; lia).
        assert (E1 : (c <? t) = false) by (apply Nat.ltb_ge; lia).
        assert (E2 : (t <? c) = true) by (apply Nat.ltb_lt; lia).
        rewrite El, Eh, E1, E2. tauto. }
    pose proof (pow2_pos t) as s_pos.
    rewrite (fold_pair_spec C (c0 O) sw0 sw1 (2 ^ t) s_pos).
    - unfold pair_spec, cx_spec, sw0, sw1.
      destruct (memb k L) eqn:EM.
      + apply memb_In, HinL in EM. destruct EM as (_ & Ec & Et). rewrite Ec, Et. reflexivity.
      + assert (HnotL : ~ In k L) by (intros HI; apply memb_In in HI; congruence).
        destruct (Nat.testbit k c) eqn:Ec.
        * destruct (Nat.testbit k t) eqn:Et.
          -- destruct (clear_bit_sub k t Et) as (x & Ex & Hx).
             assert (Hsk : (2 ^ t <=? k) = true) by (apply Nat.leb_le; lia). rewrite Hsk. cbn [andb].
             assert (Exs : k - 2 ^ t = x) by lia. rewrite Exs.
             assert (HxL : In x L).
             { apply HinL. split; [lia|]. split; [|assumption].
               rewrite <- Ec, Ex. rewrite add_pow2_bits by assumption.
               assert (E : (c =? t) = false) by (apply Nat.eqb_neq; assumption). rewrite E. reflexivity. }
             apply memb_In in HxL. rewrite HxL. reflexivity.
          -- exfalso. apply HnotL. apply HinL. auto.
        * destruct (2 ^ t <=? k) eqn:Hsk; cbn [andb]; [|reflexivity].
          destruct (memb (k - 2 ^ t) L) eqn:EM2; [|reflexivity].
          apply memb_In, HinL in EM2. destruct EM2 as (_ & Ec2 & Et2).
          apply Nat.leb_le in Hsk.
          exfalso. replace k with ((k - 2 ^ t) + 2 ^ t) in Ec by lia.
          rewrite add_pow2_bits in Ec by assumption.
          assert (E : (c =? t) = false) by (apply Nat.eqb_neq; assumption). rewrite E in Ec. congruence.
    - split; [apply NoDup_cxl; assumption|].
      intros a b Ha Hb E. apply HinL in Ha, Hb. destruct Ha as (_ & _ & Ha). destruct Hb as (_ & _ & Hb).
      subst a. rewrite add_pow2_bits in Ha by assumption. rewrite Nat.eqb_refl in Ha. discriminate.
    - intros i Hi. apply HinL in Hi. destruct Hi as (Hi & _ & Hit). rewrite Hlen.
      apply bit_clear_add_lt; assumption.
  Qed.

  (* cx with control = target is a silent no-op in the simulator (input to C05) *)
End CxMain.

(* the amplitude an output index reads besides its own sits at an index differing only in bit q *)
Definition partner (q k : nat) : nat := if Nat.testbit k q then k - 2 ^ q else k + 2 ^ q.
Lemma partner_bits q k i : Nat.testbit (partner q k) i = if i =? q then negb (Nat.testbit k q) else Nat.testbit k i.
Proof.
  unfold partner. destruct (Nat.testbit k q) eqn:E.
  - destruct (clear_bit_sub k q E) as (x & Ex & Hx).
    replace (k - 2 ^ q) with x by lia. subst k.
    rewrite add_pow2_bits by assumption. destruct (Nat.eqb_spec i q) as [->|]; [rewrite Hx|]; reflexivity.
  - rewrite add_pow2_bits by assumption. destruct (i =? q); reflexivity.
Qed.
