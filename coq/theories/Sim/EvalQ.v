(* Model of the evaluator's qubit bookkeeping (runtime_evaluator.cpp: allocateTrackedQubit,
   releaseQubit, markMeasured/unmarkMeasured, ensureQubitActive/Exists, the built-in gate
   dispatcher, measure/reset statements, destroyObject's qubit release) on top of the simulator
   model.  Definitions only. *)
From Coq Require Import List Arith Bool PeanoNat.
From Bloch Require Import Common.ListUpd Sim.SimModel.
Import ListNotations.

Section EvalQ.
  Context {F : Type} (O : sops F).

  Record evq := mkEvq {
    esim : sim (F:=F);
    eflags : list bool;            (* m_qubits[i].measured *)
    efree : list nat;              (* m_freeQubitIndices, head = back() *)
    elast : list (option bool);    (* m_lastMeasurement, None = -1 *)
    eenv : list (option (list nat)) (* declared handles: handle id -> simulator indices; None once released *)
  }.
  Definition evq_init : evq :=
    {| esim := sim_init O; eflags := []; efree := []; elast := []; eenv := [] |}.

  Definition next_draw (ds : list F) : F * list F :=
    match ds with d :: r => (d, r) | [] => (s0 O, []) end.

  Definition set_at {A} (i : nat) (x : A) (l : list A) : list A := if i <? length l then upd i x l else l.
  Definition unmark (i : nat) (e : evq) : evq :=
    {| esim := esim e; eflags := set_at i false (eflags e); efree := efree e;
       elast := set_at i None (elast e); eenv := eenv e |}.

  Definition pad {A} (n : nat) (d : A) (l : list A) : list A := l ++ repeat d (n - length l).

  (* allocateTrackedQubit *)
  Definition alloc_tracked (e : evq) (ds : list F) : evq * nat * list F :=
    match efree e with
    | idx :: rest =>
      let (r, ds') := next_draw ds in
      let s' := match sim_reset O (esim e) idx r with inl (s', _) => s' | inr _ => esim e end in
      let e1 := unmark idx {| esim := s'; eflags := eflags e; efree := rest; elast := elast e; eenv := eenv e |} in
      ({| esim := esim e1; eflags := set_at idx false (pad (S idx) false (eflags e1)); efree := efree e1;
          elast := pad (S idx) None (elast e1); eenv := eenv e1 |}, idx, ds')
    | [] =>
      let (s', idx) := sim_alloc O (esim e) in
      let fl := eflags e ++ [false] in
      ({| esim := s'; eflags := set_at idx false (pad (S idx) false fl); efree := [];
          elast := pad (S idx) None (elast e); eenv := eenv e |}, idx, ds)
    end.

  Fixpoint alloc_many (k : nat) (e : evq) (ds : list F) : evq * list nat * list F :=
    match k with
    | 0 => (e, [], ds)
    | S k' => let '(e1, i, ds1) := alloc_tracked e ds in
              let '(e2, is, ds2) := alloc_many k' e1 ds1 in (e2, i :: is, ds2)
    end.

  Inductive eerr :=
  | EMeasuredLocated        (* evaluator's ensureQubitActive: "Runtime error at Ln, Col: cannot operate on measured qubit" *)
  | ERangeLocated           (* evaluator's ensureQubitExists *)
  | ESameQubit              (* cx with control = target (repaired code) *)
  | ESimUnlocated (x : simerr)   (* would surface the simulator's own position-less error *)
  | EBadHandle.             (* generator error: unknown handle/element *)

  Definition ensure_exists (e : evq) (i : nat) : option eerr :=
    if i <? length (eflags e) then None else Some ERangeLocated.
  Definition ensure_active_ev (e : evq) (i : nat) : option eerr :=
    match ensure_exists e i with
    | Some x => Some x
    | None => if nth i (eflags e) false then Some EMeasuredLocated else None
    end.

  Definition with_sim (e : evq) (s' : sim) : evq :=
    {| esim := s'; eflags := eflags e; efree := efree e; elast := elast e; eenv := eenv e |}.
  Definition mark (i : nat) (b : bool) (e : evq) : evq :=
    {| esim := esim e; eflags := set_at i true (eflags e); efree := efree e;
       elast := set_at i (Some b) (elast e); eenv := eenv e |}.

  Definition ev_gate (e : evq) (g : gate1 F) (i : nat) : evq + eerr :=
    match ensure_active_ev e i with
    | Some x => inr x
    | None => match sim_gate O (esim e) g i with inl s' => inl (with_sim e s') | inr x => inr (ESimUnlocated x) end
    end.

  Definition ev_cx (e : evq) (c t : nat) : evq + eerr :=
    match ensure_active_ev e c with
    | Some x => inr x
    | None =>
      match ensure_active_ev e t with
      | Some x => inr x
      | None =>
        if c =? t then inr ESameQubit else
        match sim_cx O (esim e) c t with inl s' => inl (with_sim e s') | inr x => inr (ESimUnlocated x) end
      end
    end.

  Definition ev_measure (e : evq) (i : nat) (ds : list F) : (evq * bool * list F) + eerr :=
    match ensure_active_ev e i with
    | Some x => inr x
    | None =>
      let (r, ds') := next_draw ds in
      match sim_measure O (esim e) i r with
      | inl (s', b) => inl (mark i b (with_sim e s'), b, ds')
      | inr x => inr (ESimUnlocated x)
      end
    end.

  (* measure q[] : element by element; stops at the first refusal, keeping what was already measured *)
  Fixpoint ev_measure_all (e : evq) (is : list nat) (ds : list F) : evq * list bool * list F * option eerr :=
    match is with
    | [] => (e, [], ds, None)
    | i :: r =>
      match ev_measure e i ds with
      | inr x => (e, [], ds, Some x)
      | inl (e1, b, ds1) =>
        let '(e2, bs, ds2, err) := ev_measure_all e1 r ds1 in (e2, b :: bs, ds2, err)
      end
    end.

  Definition ev_reset (e : evq) (i : nat) (ds : list F) : (evq * list F) + eerr :=
    match ensure_exists e i with
    | Some x => inr x
    | None =>
      let (r, ds') := next_draw ds in
      match sim_reset O (esim e) i r with
      | inl (s', _) => inl (unmark i (with_sim e s'), ds')
      | inr x => inr (ESimUnlocated x)
      end
    end.

  (* destroyObject: reset + releaseQubit for each qubit field, in field order *)
  Fixpoint ev_release (e : evq) (is : list nat) (ds : list F) : (evq * list F) + eerr :=
    match is with
    | [] => inl (e, ds)
    | i :: r =>
      match ev_reset e i ds with
      | inr x => inr x
      | inl (e1, ds1) =>
        let e2 := {| esim := esim e1; eflags := eflags e1; efree := i :: efree e1; elast := elast e1; eenv := eenv e1 |} in
        ev_release e2 r ds1
      end
    end.

  (* ---- scripted programs over handles ---- *)
  Inductive eop :=
  | EDecl (k : nat)                         (* declare k qubits under the next handle id *)
  | EGate (g : gate1 F) (h el : nat)
  | ECx (h1 e1 h2 e2 : nat)
  | EMeas (h el : nat)
  | EMeasAll (h : nat)
  | EReset (h el : nat)
  | ERelease (h : nat).

  Definition handle (e : evq) (h : nat) : option (list nat) :=
    match nth_error (eenv e) h with
    | Some (Some is) => Some is
    | _ => None
    end.
  Definition resolve (e : evq) (h el : nat) : option nat :=
    match handle e h with
    | Some is => nth_error is el
    | None => None
    end.
  Definition drop_handle (h : nat) (env : list (option (list nat))) : list (option (list nat)) :=
    if h <? length env then upd h None env else env.

  Inductive eres := ROk (bits : list bool) | RErr (x : eerr).

  Definition ev_step (e : evq) (o : eop) (ds : list F) : evq * eres * list F :=
    match o with
    | EDecl k =>
      let '(e1, is, ds1) := alloc_many k e ds in
      ({| esim := esim e1; eflags := eflags e1; efree := efree e1; elast := elast e1; eenv := eenv e1 ++ [Some is] |}, ROk [], ds1)
    | EGate g h el =>
      match resolve e h el with
      | None => (e, RErr EBadHandle, ds)
      | Some i => match ev_gate e g i with inl e' => (e', ROk [], ds) | inr x => (e, RErr x, ds) end
      end
    | ECx h1 e1 h2 e2 =>
      match resolve e h1 e1, resolve e h2 e2 with
      | Some c, Some t => match ev_cx e c t with inl e' => (e', ROk [], ds) | inr x => (e, RErr x, ds) end
      | _, _ => (e, RErr EBadHandle, ds)
      end
    | EMeas h el =>
      match resolve e h el with
      | None => (e, RErr EBadHandle, ds)
      | Some i => match ev_measure e i ds with inl (e', b, ds') => (e', ROk [b], ds') | inr x => (e, RErr x, ds) end
      end
    | EMeasAll h =>
      match handle e h with
      | None => (e, RErr EBadHandle, ds)
      | Some is => match ev_measure_all e is ds with
                   | (e', bs, ds', None) => (e', ROk bs, ds')
                   | (e', _, ds', Some x) => (e', RErr x, ds')
                   end
      end
    | EReset h el =>
      match resolve e h el with
      | None => (e, RErr EBadHandle, ds)
      | Some i => match ev_reset e i ds with inl (e', ds') => (e', ROk [], ds') | inr x => (e, RErr x, ds) end
      end
    | ERelease h =>
      match handle e h with
      | None => (e, RErr EBadHandle, ds)
      | Some is =>
        match ev_release e is ds with
        | inl (e', ds') =>
          ({| esim := esim e'; eflags := eflags e'; efree := efree e'; elast := elast e'; eenv := drop_handle h (eenv e') |}, ROk [], ds')
        | inr x => (e, RErr x, ds)
        end
      end
    end.

  (* a program stops at its first runtime error *)
  Fixpoint ev_run (e : evq) (os : list eop) (ds : list F) : evq * list eres :=
    match os with
    | [] => (e, [])
    | o :: r =>
      let '(e1, res, ds1) := ev_step e o ds in
      match res with
      | RErr _ => (e1, [res])
      | ROk _ => let (e2, tr) := ev_run e1 r ds1 in (e2, res :: tr)
      end
    end.
End EvalQ.
