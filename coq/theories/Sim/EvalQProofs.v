(* Invariants of the evaluator's qubit bookkeeping, for every op history (C03 handles, C06 flags). *)
From Coq Require Import List Arith Lia Bool PeanoNat Permutation.
From Bloch Require Import Common.ListUpd Sim.SimModel Sim.EvalQ.
Import ListNotations.

Lemma length_set_at {A} i (x : A) l : length (set_at i x l) = length l.
Proof. unfold set_at. destruct (i <? length l); [apply upd_length|reflexivity]. Qed.
Lemma nth_set_at {A} i j (x : A) l d :
  nth j (set_at i x l) d = if (j =? i) && (i <? length l) then x else nth j l d.
Proof.
  unfold set_at. destruct (Nat.ltb_spec i (length l)).
  - destruct (Nat.eqb_spec j i) as [->|Hne]; cbn [andb].
    + apply nth_upd_eq. assumption.
    + apply nth_upd_neq. lia.
  - rewrite andb_false_r. reflexivity.
Qed.
Lemma length_set_flag i b l : length (set_flag i b l) = length l.
Proof. unfold set_flag. destruct (i <? length l); [apply upd_length|reflexivity]. Qed.
Lemma nth_set_flag i j b l d :
  nth j (set_flag i b l) d = if (j =? i) && (i <? length l) then b else nth j l d.
Proof. apply (nth_set_at i j b l d). Qed.
Lemma length_pad {A} n (d : A) l : length (pad n d l) = Nat.max n (length l).
Proof. unfold pad. rewrite app_length, repeat_length. lia. Qed.
Lemma pad_id {A} n (d : A) l : n <= length l -> pad n d l = l.
Proof. intros H. unfold pad. replace (n - length l) with 0 by lia. apply app_nil_r. Qed.

Lemma NoDup_app_last {A} (l : list A) x : NoDup l -> ~ In x l -> NoDup (l ++ [x]).
Proof.
  intros Hn Hx. apply (Permutation_NoDup (l := x :: l)); [apply Permutation_cons_append|].
  constructor; assumption.
Qed.

Section P.
  Context {F : Type} (O : sops F).
  Notation evq := (evq (F:=F)).
  Notation sim := (sim (F:=F)).

  (* ---- what the simulator operations do to nq / measured flags ---- *)
  Lemma sim_gate_frame (s s' : sim) g q : sim_gate O s g q = inl s' ->
    nq s' = nq s /\ meas s' = meas s /\ ensure_active s q = None.
  Proof. unfold sim_gate. destruct (ensure_active s q); [discriminate|]. intros [= <-]. auto. Qed.
  Lemma sim_cx_frame (s s' : sim) c t : sim_cx O s c t = inl s' ->
    nq s' = nq s /\ meas s' = meas s.
  Proof. unfold sim_cx. destruct (ensure_active s c); [discriminate|]. destruct (ensure_active s t); [discriminate|]. intros [= <-]. auto. Qed.
  Lemma sim_reset_frame (s s' : sim) q r b : sim_reset O s q r = inl (s', b) ->
    nq s' = nq s /\ meas s' = set_flag q false (meas s) /\ q < nq s.
  Proof.
    unfold sim_reset. destruct (Nat.leb_spec (nq s) q); [discriminate|].
    destruct (reset_state O q r (amps s)). intros [= <- <-]. auto.
  Qed.
  Lemma sim_measure_frame (s s' : sim) q r b : sim_measure O s q r = inl (s', b) ->
    nq s' = nq s /\ meas s' = set_flag q true (meas s) /\ q < nq s.
  Proof.
    unfold sim_measure, ensure_active. destruct (Nat.leb_spec (nq s) q); [discriminate|].
    destruct (nth q (meas s) false); [discriminate|].
    destruct (measure_state O q r (amps s)). intros [= <- <-]. auto.
  Qed.
  Lemma sim_reset_ok (s : sim) q r : q < nq s -> exists s' b, sim_reset O s q r = inl (s', b).
  Proof.
    intros H. unfold sim_reset. destruct (Nat.leb_spec (nq s) q); [lia|].
    destruct (reset_state O q r (amps s)). eauto.
  Qed.

  Lemma sim_alloc_frame (s s' : sim) idx : length (meas s) = nq s -> sim_alloc O s = (s', idx) ->
    idx = nq s /\ nq s' = S (nq s) /\ meas s' = meas s ++ [false].
  Proof.
    intros L. unfold sim_alloc. rewrite L, Nat.leb_refl. replace (S (nq s) - nq s) with 1 by lia.
    intros H. inversion H; subst. cbn. auto.
  Qed.

  (* ---- the invariant ---- *)
  Definition live (e : evq) : list nat :=
    concat (map (fun o => match o with Some is => is | None => [] end) (eenv e)).

  Record FInv (e : evq) : Prop := {
    i_flags_len : length (eflags e) = nq (esim e);
    i_meas_len : length (meas (esim e)) = nq (esim e);
    i_last_len : length (elast e) = nq (esim e);
    i_agree : forall i, i < nq (esim e) -> nth i (eflags e) false = nth i (meas (esim e)) false
  }.
  Record EInv (pend : list nat) (e : evq) : Prop := {
    i_f : FInv e;
    i_nodup : NoDup (efree e ++ live e ++ pend);
    i_range : forall i, In i (efree e ++ live e ++ pend) -> i < nq (esim e)
  }.

  Lemma EInv_init : EInv [] (evq_init O).
  Proof. constructor; [constructor|..]; cbn; auto; try lia; try constructor; try (intros i []). Qed.

  (* operations that touch neither free list nor env *)
  Lemma inv_same_sets pend (e e' : evq) :
    EInv pend e -> efree e' = efree e -> eenv e' = eenv e -> nq (esim e') = nq (esim e) -> FInv e' -> EInv pend e'.
  Proof.
    intros I Hf He Hn FI. constructor; auto; unfold live; rewrite ?Hf, ?He, ?Hn.
    - apply (i_nodup _ _ I).
    - apply (i_range _ _ I).
  Qed.

  Lemma ev_gate_finv (e e' : evq) g i : FInv e -> ev_gate O e g i = inl e' ->
    FInv e' /\ efree e' = efree e /\ eenv e' = eenv e /\ nq (esim e') = nq (esim e).
  Proof.
    intros I. unfold ev_gate. destruct (ensure_active_ev e i); [discriminate|].
    destruct (sim_gate O (esim e) g i) as [s'|] eqn:E; [|discriminate]. intros [= <-].
    apply sim_gate_frame in E. destruct E as (En & Em & _). destruct I.
    split; [|cbn; repeat split; auto].
    constructor; cbn; try congruence. intros j Hj. rewrite Em. apply i_agree0. congruence.
  Qed.

  Lemma ev_cx_finv (e e' : evq) c t : FInv e -> ev_cx O e c t = inl e' ->
    FInv e' /\ efree e' = efree e /\ eenv e' = eenv e /\ nq (esim e') = nq (esim e).
  Proof.
    intros I. unfold ev_cx. destruct (ensure_active_ev e c); [discriminate|]. destruct (ensure_active_ev e t); [discriminate|].
    destruct (c =? t); [discriminate|].
    destruct (sim_cx O (esim e) c t) as [s'|] eqn:E; [|discriminate]. intros [= <-].
    apply sim_cx_frame in E. destruct E as (En & Em). destruct I.
    split; [|cbn; repeat split; auto].
    constructor; cbn; try congruence. intros j Hj. rewrite Em. apply i_agree0. congruence.
  Qed.

  Lemma ev_measure_finv (e e' : evq) i ds b ds' :
    FInv e -> ev_measure O e i ds = inl (e', b, ds') ->
    FInv e' /\ efree e' = efree e /\ eenv e' = eenv e /\ nq (esim e') = nq (esim e)
    /\ nth i (eflags e') false = true /\ nth i (elast e') None = Some b
    /\ (forall j, j <> i -> nth j (eflags e') false = nth j (eflags e) false)
    /\ b = fst (measure_state O i (fst (next_draw O ds)) (amps (esim e))).
  Proof.
    intros I. unfold ev_measure. destruct (ensure_active_ev e i); [discriminate|].
    destruct (next_draw O ds) as [r dsr] eqn:Ed.
    destruct (sim_measure O (esim e) i r) as [[s' b0]|] eqn:E; [|discriminate]. intros [= <- <- <-].
    pose proof E as E0. apply sim_measure_frame in E. destruct E as (En & Em & Hi). destruct I.
    assert (Hl : (i <? nq (esim e)) = true) by (apply Nat.ltb_lt; assumption).
    cbn [esim eflags efree elast eenv mark with_sim].
    split; [constructor; cbn [esim eflags efree elast eenv mark unmark with_sim]|repeat split; auto].
    - rewrite length_set_at. congruence.
    - rewrite Em, length_set_flag. congruence.
    - rewrite length_set_at. congruence.
    - intros j Hj. rewrite Em, nth_set_at, nth_set_flag. rewrite i_flags_len0, i_meas_len0.
      destruct ((j =? i) && (i <? nq (esim e))); [reflexivity|]. apply i_agree0. congruence.
    - rewrite nth_set_at, Nat.eqb_refl, i_flags_len0, Hl. reflexivity.
    - rewrite nth_set_at, Nat.eqb_refl, i_last_len0, Hl. reflexivity.
    - intros j Hj. rewrite nth_set_at. assert (Hne : (j =? i) = false) by (apply Nat.eqb_neq; assumption). rewrite Hne. reflexivity.
    - cbn [fst]. unfold sim_measure in E0. destruct (ensure_active (esim e) i); [discriminate|].
      destruct (measure_state O i r (amps (esim e))) as [res st']. cbn [fst]. congruence.
  Qed.

  Lemma ev_reset_finv (e e' : evq) i ds ds' :
    FInv e -> ev_reset O e i ds = inl (e', ds') ->
    FInv e' /\ efree e' = efree e /\ eenv e' = eenv e /\ nq (esim e') = nq (esim e) /\ nth i (eflags e') false = false
    /\ i < nq (esim e).
  Proof.
    intros I. unfold ev_reset. destruct (ensure_exists e i); [discriminate|].
    destruct (next_draw O ds) as [r dsr].
    destruct (sim_reset O (esim e) i r) as [[s' b0]|] eqn:E; [|discriminate]. intros [= <- <-].
    apply sim_reset_frame in E. destruct E as (En & Em & Hi). destruct I.
    assert (Hl : (i <? nq (esim e)) = true) by (apply Nat.ltb_lt; assumption).
    cbn [esim eflags efree elast eenv unmark with_sim].
    split; [constructor; cbn [esim eflags efree elast eenv mark unmark with_sim]|repeat split; auto].
    - rewrite length_set_at. congruence.
    - rewrite Em, length_set_flag. congruence.
    - rewrite length_set_at. congruence.
    - intros j Hj. rewrite Em, nth_set_at, nth_set_flag. rewrite i_flags_len0, i_meas_len0.
      destruct ((j =? i) && (i <? nq (esim e))); [reflexivity|]. apply i_agree0. congruence.
    - rewrite nth_set_at, Nat.eqb_refl, i_flags_len0, Hl. reflexivity.
  Qed.

  (* ---- allocation (fresh or recycled) ---- *)
  Lemma nth_app_last {A} (l : list A) x d j : nth j (l ++ [x]) d = if j =? length l then x else nth j l d.
  Proof.
    destruct (Nat.eqb_spec j (length l)) as [->|Hne].
    - rewrite app_nth2 by lia. rewrite Nat.sub_diag. reflexivity.
    - destruct (Nat.lt_ge_cases j (length l)).
      + apply app_nth1. assumption.
      + rewrite app_nth2 by lia. rewrite !nth_overflow; cbn; auto; lia.
  Qed.

  Lemma alloc_tracked_inv pend (e e' : evq) ds idx ds' :
    EInv pend e -> alloc_tracked O e ds = (e', idx, ds') ->
    EInv (pend ++ [idx]) e' /\ eenv e' = eenv e /\ nth idx (eflags e') false = false.
  Proof.
    intros I. unfold alloc_tracked. destruct (efree e) as [|i0 rest] eqn:Ef.
    - (* fresh qubit *)
      destruct I as [[L1 L2 L3 Ag] Nd Rg]. rewrite Ef in *. cbn [app] in *.
      destruct (sim_alloc O (esim e)) as [s' idx0] eqn:Ea.
      apply (sim_alloc_frame _ _ _ L2) in Ea. destruct Ea as (-> & En & Em).
      intros [= <- <- <-].
      set (n := nq (esim e)) in *.
      assert (Epf : pad (S n) false (eflags e ++ [false]) = eflags e ++ [false]) by (apply pad_id; rewrite app_length; cbn; lia).
      assert (Epl : pad (S n) None (elast e) = elast e ++ [None]).
      { unfold pad. rewrite L3. replace (S n - n) with 1 by lia. reflexivity. }
      rewrite Epf, Epl.
      split; [|split]; cbn [esim eflags efree elast eenv].
      + constructor; [constructor|..]; cbn [esim eflags efree elast eenv]; unfold live; cbn [eenv]; rewrite ?En, ?Em.
        * rewrite length_set_at, app_length. cbn. lia.
        * rewrite app_length. cbn. lia.
        * rewrite app_length. cbn. lia.
        * intros j Hj. rewrite nth_set_at, !nth_app_last, app_length, L1, L2. cbn [length].
          destruct (Nat.eqb_spec j n) as [->|Hne]; cbn [andb].
          -- destruct (n <? n + 1); reflexivity.
          -- apply Ag. lia.
        * cbn [app]. rewrite app_assoc. apply NoDup_app_last; [assumption|].
          intros Hin. apply Rg in Hin. lia.
        * cbn [app]. intros j Hj. rewrite app_assoc in Hj. apply in_app_or in Hj. destruct Hj as [Hj|[<-|[]]]; [apply Rg in Hj; lia|lia].
      + reflexivity.
      + rewrite nth_set_at, Nat.eqb_refl, app_length, L1. cbn [length].
        assert (E : (n <? n + 1) = true) by (apply Nat.ltb_lt; lia). rewrite E. reflexivity.
    - (* recycled index *)
      destruct (next_draw O ds) as [r dsr].
      destruct I as [[L1 L2 L3 Ag] Nd Rg]. rewrite Ef in *.
      assert (Hi0 : i0 < nq (esim e)) by (apply Rg; left; reflexivity).
      destruct (sim_reset_ok (esim e) i0 r Hi0) as (s' & b & Es). rewrite Es.
      apply sim_reset_frame in Es. destruct Es as (En & Em & _).
      intros [= <- <- <-]. cbn [esim eflags efree elast eenv unmark].
      assert (Epf : pad (S i0) false (set_at i0 false (eflags e)) = set_at i0 false (eflags e)) by (apply pad_id; rewrite length_set_at; lia).
      assert (Epl : pad (S i0) None (set_at i0 None (elast e)) = set_at i0 None (elast e)) by (apply pad_id; rewrite length_set_at; lia).
      split; [|split].
      + constructor; [constructor|..]; cbn [esim eflags efree elast eenv]; unfold live; cbn [eenv].
        * rewrite Epf, !length_set_at. congruence.
        * rewrite Em, length_set_flag. congruence.
        * rewrite Epl, length_set_at. congruence.
        * intros j Hj. rewrite Epf, Em, !nth_set_at, nth_set_flag, length_set_at, L1, L2.
          destruct ((j =? i0) && (i0 <? nq (esim e))); [reflexivity|]. apply Ag. congruence.
        * fold (live e). cbn [app] in Nd.
          apply (Permutation_NoDup (l := i0 :: rest ++ live e ++ pend)); [|assumption].
          rewrite !app_assoc. apply Permutation_cons_append.
        * fold (live e). intros j Hj. rewrite En. apply Rg. cbn [app].
          apply (Permutation_in (l := rest ++ live e ++ pend ++ [i0])); [|assumption].
          rewrite !app_assoc. apply Permutation_sym, Permutation_cons_append.
      + reflexivity.
      + rewrite Epf, nth_set_at, Nat.eqb_refl, length_set_at, L1.
        assert (E : (i0 <? nq (esim e)) = true) by (apply Nat.ltb_lt; assumption). rewrite E. reflexivity.
  Qed.

  Lemma alloc_many_inv k : forall pend (e e' : evq) ds is ds',
    EInv pend e -> alloc_many O k e ds = (e', is, ds') ->
    EInv (pend ++ is) e' /\ eenv e' = eenv e.
  Proof.
    induction k as [|k IH]; intros pend e e' ds is ds' I; cbn [alloc_many].
    - intros [= <- <- <-]. rewrite app_nil_r. auto.
    - destruct (alloc_tracked O e ds) as [[e1 i] ds1] eqn:E1.
      destruct (alloc_many O k e1 ds1) as [[e2 is2] ds2] eqn:E2. intros [= <- <- <-].
      apply (alloc_tracked_inv pend) in E1; [|assumption]. destruct E1 as (I1 & Ee1 & _).
      apply (IH _ _ _ _ _ _ I1) in E2. destruct E2 as (I2 & Ee2).
      rewrite <- app_assoc in I2. cbn [app] in I2. split; [assumption|congruence].
  Qed.

  (* ---- release (destroyObject) ---- *)
  Lemma finv_efree (e : evq) fr : FInv e ->
    FInv {| esim := esim e; eflags := eflags e; efree := fr; elast := elast e; eenv := eenv e |}.
  Proof. intros [A B C D]. constructor; cbn; auto. Qed.

  Lemma ev_release_finv is : forall (e e' : evq) ds ds',
    FInv e -> ev_release O e is ds = inl (e', ds') ->
    FInv e' /\ efree e' = rev is ++ efree e /\ eenv e' = eenv e /\ nq (esim e') = nq (esim e).
  Proof.
    induction is as [|i r IH]; intros e e' ds ds' I; cbn [ev_release].
    - intros [= <- <-]. auto.
    - destruct (ev_reset O e i ds) as [[e1 ds1]|] eqn:E1; [|discriminate].
      apply (ev_reset_finv e e1) in E1; [|assumption]. destruct E1 as (I1 & Ef1 & Ee1 & En1 & _).
      intros E2. apply IH in E2; [|apply finv_efree; assumption].
      destruct E2 as (I2 & Ef2 & Ee2 & En2). cbn [efree eenv esim] in *.
      split; [assumption|]. split; [|split; congruence].
      rewrite Ef2, Ef1. cbn [rev]. rewrite <- app_assoc. reflexivity.
  Qed.

  Definition envf (o : option (list nat)) : list nat := match o with Some is => is | None => [] end.
  Lemma live_unfold (e : evq) : live e = concat (map envf (eenv e)).
  Proof. reflexivity. Qed.

  Lemma upd_app_mid {A} (l1 l2 : list A) x y : upd (length l1) y (l1 ++ x :: l2) = l1 ++ y :: l2.
  Proof. induction l1 as [|a l1 IH]; cbn; [reflexivity|]. rewrite IH. reflexivity. Qed.

  Lemma handle_split (e : evq) h is : handle e h = Some is ->
    exists l1 l2, eenv e = l1 ++ Some is :: l2 /\ length l1 = h.
  Proof.
    unfold handle. destruct (nth_error (eenv e) h) as [[is0|]|] eqn:E; try discriminate.
    intros [= ->]. apply nth_error_split in E. exact E.
  Qed.

  Lemma step_release_inv (e e' : evq) h is ds ds' :
    EInv [] e -> handle e h = Some is -> ev_release O e is ds = inl (e', ds') ->
    EInv [] {| esim := esim e'; eflags := eflags e'; efree := efree e'; elast := elast e'; eenv := drop_handle h (eenv e') |}.
  Proof.
    intros [FI Nd Rg] Hh Er. apply (ev_release_finv is e e') in Er; [|assumption].
    destruct Er as (FI' & Ef & Ee & En).
    destruct (handle_split e h is Hh) as (l1 & l2 & Eenv & Hl).
    assert (Ed : drop_handle h (eenv e') = l1 ++ None :: l2).
    { unfold drop_handle. rewrite Ee, Eenv, app_length. cbn [length].
      assert (Hlt : (h <? length l1 + S (length l2)) = true) by (apply Nat.ltb_lt; lia). rewrite Hlt.
      rewrite <- Hl. apply upd_app_mid. }
    constructor.
    - destruct FI'. constructor; cbn; auto.
    - cbn [efree]. rewrite live_unfold. cbn [eenv]. rewrite Ed, Ef.
      rewrite live_unfold, Eenv in Nd. rewrite !map_app, !concat_app in *. cbn [map concat envf app] in *.
      rewrite !app_nil_r in *.
      apply (Permutation_NoDup (l := efree e ++ concat (map envf l1) ++ is ++ concat (map envf l2))); [|assumption].
      rewrite <- (Permutation_rev is).
      set (A := efree e). set (B := concat (map envf l1)). set (D := concat (map envf l2)).
      transitivity (is ++ A ++ B ++ D).
      + rewrite !app_assoc. apply Permutation_app_tail.
        rewrite <- !app_assoc. rewrite (app_assoc A B is). apply Permutation_app_comm.
      + rewrite <- !app_assoc. reflexivity.
    - cbn [efree esim]. intros j Hj. rewrite En. apply Rg.
      rewrite live_unfold in *. cbn [eenv] in Hj. rewrite Ed, Ef in Hj. rewrite Eenv.
      rewrite !map_app, !concat_app in *. cbn [map concat envf app] in *. rewrite !app_nil_r in *.
      rewrite !in_app_iff in *. rewrite <- in_rev in Hj. tauto.
  Qed.

  (* ---- every step, every history ---- *)
  Lemma ev_measure_all_finv is : forall (e e' : evq) ds bs ds' err (M : list nat),
    FInv e -> (forall i, In i M -> nth i (eflags e) false = true) ->
    ev_measure_all O e is ds = (e', bs, ds', err) ->
    FInv e' /\ efree e' = efree e /\ eenv e' = eenv e /\ nq (esim e') = nq (esim e)
    /\ (err = None -> forall i, In i (M ++ is) -> nth i (eflags e') false = true).
  Proof.
    induction is as [|i r IH]; intros e e' ds bs ds' err M I HM; cbn [ev_measure_all].
    - intros [= <- <- <- <-]. rewrite app_nil_r. auto.
    - destruct (ev_measure O e i ds) as [[[e1 b] ds1]|x] eqn:E1.
      2:{ intros [= <- <- <- <-]. repeat split; auto; try discriminate; apply I. }
      destruct (ev_measure_all O e1 r ds1) as [[[e2 bs2] ds2] err2] eqn:E2.
      intros [= <- <- <- <-].
      apply (ev_measure_finv e e1) in E1; [|assumption].
      destruct E1 as (I1 & Ef1 & Ee1 & En1 & Hm1 & _ & Hoth & _).
      apply (IH e1 e2 ds1 bs2 ds2 err2 (M ++ [i]) I1) in E2.
      + destruct E2 as (I2 & Ef2 & Ee2 & En2 & Hm2).
        split; [assumption|]. split; [congruence|]. split; [congruence|]. split; [congruence|].
        intros Hn j Hj. apply Hm2; [assumption|]. rewrite <- app_assoc. exact Hj.
      + intros j Hj. apply in_app_or in Hj. destruct Hj as [Hj|[<-|[]]]; [|assumption].
        destruct (Nat.eq_dec j i) as [->|Hne]; [assumption|]. rewrite Hoth by assumption. apply HM. assumption.
  Qed.

  Lemma live_snoc (e : evq) is :
    concat (map envf (eenv e ++ [Some is])) = live e ++ is.
  Proof. rewrite map_app, concat_app. cbn. rewrite app_nil_r. reflexivity. Qed.

  Theorem ev_step_inv (e e' : evq) o ds res ds' :
    EInv [] e -> ev_step O e o ds = (e', res, ds') -> EInv [] e'.
  Proof.
    intros I. pose proof (i_f _ _ I) as FI. destruct o as [k|g h el|h1 e1 h2 e2|h el|h|h el|h]; cbn [ev_step].
    - destruct (alloc_many O k e ds) as [[e1 is] ds1] eqn:E. intros [= <- <- <-].
      apply (alloc_many_inv k []) in E; [|assumption]. destruct E as ([FI1 Nd1 Rg1] & Ee). cbn [app] in *.
      constructor.
      + destruct FI1. constructor; cbn; auto.
      + cbn [efree]. rewrite live_unfold. cbn [eenv]. rewrite live_snoc, app_nil_r. exact Nd1.
      + cbn [efree esim]. rewrite live_unfold. cbn [eenv]. rewrite live_snoc, app_nil_r. exact Rg1.
    - destruct (resolve e h el) as [i|]; [|intros [= <- <- <-]; assumption].
      destruct (ev_gate O e g i) as [e1|] eqn:E; intros [= <- <- <-]; [|assumption].
      apply ev_gate_finv in E; [|assumption]. destruct E as (F1 & A & B & D).
      apply (inv_same_sets [] e); auto.
    - destruct (resolve e h1 e1) as [c|]; [|intros [= <- <- <-]; assumption].
      destruct (resolve e h2 e2) as [t|]; [|intros [= <- <- <-]; assumption].
      destruct (ev_cx O e c t) as [e3|] eqn:E; intros [= <- <- <-]; [|assumption].
      apply ev_cx_finv in E; [|assumption]. destruct E as (F1 & A & B & D).
      apply (inv_same_sets [] e); auto.
    - destruct (resolve e h el) as [i|]; [|intros [= <- <- <-]; assumption].
      destruct (ev_measure O e i ds) as [[[e1 b] ds1]|] eqn:E; intros [= <- <- <-]; [|assumption].
      apply ev_measure_finv in E; [|assumption]. destruct E as (F1 & A & B & D & _).
      apply (inv_same_sets [] e); auto.
    - destruct (handle e h) as [is|]; [|intros [= <- <- <-]; assumption].
      destruct (ev_measure_all O e is ds) as [[[e1 bs] ds1] err] eqn:E.
      apply (ev_measure_all_finv is e e1 ds bs ds1 err []) in E; [|assumption|intros i []].
      destruct E as (F1 & A & B & D & _).
      destruct err; intros [= <- <- <-]; apply (inv_same_sets [] e); auto.
    - destruct (resolve e h el) as [i|]; [|intros [= <- <- <-]; assumption].
      destruct (ev_reset O e i ds) as [[e1 ds1]|] eqn:E; intros [= <- <- <-]; [|assumption].
      apply ev_reset_finv in E; [|assumption]. destruct E as (F1 & A & B & D & _).
      apply (inv_same_sets [] e); auto.
    - destruct (handle e h) as [is|] eqn:Hh; [|intros [= <- <- <-]; assumption].
      destruct (ev_release O e is ds) as [[e1 ds1]|] eqn:E; intros [= <- <- <-]; [|assumption].
      eapply step_release_inv; eauto.
  Qed.

  Theorem ev_run_inv os : forall (e e' : evq) ds tr,
    EInv [] e -> ev_run O e os ds = (e', tr) -> EInv [] e'.
  Proof.
    induction os as [|o r IH]; intros e e' ds tr I; cbn [ev_run].
    - intros [= <- <-]. assumption.
    - destruct (ev_step O e o ds) as [[e1 res] ds1] eqn:E1.
      apply ev_step_inv in E1; [|assumption].
      destruct res as [bits|x]; [|intros [= <- <-]; assumption].
      destruct (ev_run O e1 r ds1) as [e2 tr2] eqn:E2. intros [= <- <-].
      eapply IH; eauto.
  Qed.

  Corollary reachable_inv os ds : EInv [] (fst (ev_run O (evq_init O) os ds)).
  Proof. destruct (ev_run O (evq_init O) os ds) as [e tr] eqn:E. cbn. eapply ev_run_inv; eauto. apply EInv_init. Qed.

  (* ---- C06 statements ---- *)
  Lemma gate_on_measured_refused (e : evq) g i :
    i < length (eflags e) -> nth i (eflags e) false = true -> ev_gate O e g i = inr EMeasuredLocated.
  Proof.
    intros Hi Hm. unfold ev_gate, ensure_active_ev, ensure_exists.
    assert (E : (i <? length (eflags e)) = true) by (apply Nat.ltb_lt; assumption). rewrite E, Hm. reflexivity.
  Qed.

  Lemma cx_on_measured_refused (e : evq) c t :
    c < length (eflags e) -> t < length (eflags e) ->
    nth c (eflags e) false = true \/ nth t (eflags e) false = true -> ev_cx O e c t = inr EMeasuredLocated.
  Proof.
    intros Hc Ht Hm. unfold ev_cx, ensure_active_ev, ensure_exists.
    assert (E1 : (c <? length (eflags e)) = true) by (apply Nat.ltb_lt; assumption).
    assert (E2 : (t <? length (eflags e)) = true) by (apply Nat.ltb_lt; assumption).
    rewrite E1, E2. destruct (nth c (eflags e) false); [reflexivity|]. destruct Hm as [Hm|Hm]; [discriminate|]. rewrite Hm. reflexivity.
  Qed.

  Lemma measure_on_measured_refused (e : evq) i ds :
    i < length (eflags e) -> nth i (eflags e) false = true -> ev_measure O e i ds = inr EMeasuredLocated.
  Proof.
    intros Hi Hm. unfold ev_measure, ensure_active_ev, ensure_exists.
    assert (E : (i <? length (eflags e)) = true) by (apply Nat.ltb_lt; assumption). rewrite E, Hm. reflexivity.
  Qed.

  Lemma sim_active_of_flags (e : evq) i : FInv e -> i < nq (esim e) -> nth i (eflags e) false = false ->
    ensure_active (esim e) i = None.
  Proof.
    intros [L1 L2 L3 Ag] Hi Hf. unfold ensure_active.
    assert (E : (nq (esim e) <=? i) = false) by (apply Nat.leb_gt; assumption). rewrite E.
    rewrite <- Ag by assumption. rewrite Hf. reflexivity.
  Qed.

  Lemma unmeasured_never_refused (e : evq) g i : FInv e -> i < nq (esim e) -> nth i (eflags e) false = false ->
    exists e', ev_gate O e g i = inl e'.
  Proof.
    intros FI Hi Hf. pose proof (sim_active_of_flags e i FI Hi Hf) as Ha. destruct FI as [L1 L2 L3 Ag].
    unfold ev_gate, ensure_active_ev, ensure_exists.
    assert (E : (i <? length (eflags e)) = true) by (apply Nat.ltb_lt; lia). rewrite E, Hf.
    unfold sim_gate. rewrite Ha. eauto.
  Qed.

  Lemma unmeasured_measure_ok (e : evq) i ds : FInv e -> i < nq (esim e) -> nth i (eflags e) false = false ->
    exists e' b ds', ev_measure O e i ds = inl (e', b, ds').
  Proof.
    intros FI Hi Hf. pose proof (sim_active_of_flags e i FI Hi Hf) as Ha. destruct FI as [L1 L2 L3 Ag].
    unfold ev_measure, ensure_active_ev, ensure_exists.
    assert (E : (i <? length (eflags e)) = true) by (apply Nat.ltb_lt; lia). rewrite E, Hf.
    destruct (next_draw O ds) as [r dsr]. unfold sim_measure. rewrite Ha.
    destruct (measure_state O i r (amps (esim e))). eauto.
  Qed.

  Lemma reset_reenables (e e' : evq) i ds ds' g : FInv e -> ev_reset O e i ds = inl (e', ds') ->
    exists e'', ev_gate O e' g i = inl e''.
  Proof.
    intros FI E. apply ev_reset_finv in E; [|assumption]. destruct E as (F1 & _ & _ & En & Hf & Hi).
    apply unmeasured_never_refused; auto. congruence.
  Qed.

  Lemma reset_always_ok (e : evq) i ds : FInv e -> i < nq (esim e) -> exists e' ds', ev_reset O e i ds = inl (e', ds').
  Proof.
    intros [L1 L2 L3 Ag] Hi. unfold ev_reset, ensure_exists.
    assert (E : (i <? length (eflags e)) = true) by (apply Nat.ltb_lt; lia). rewrite E.
    destruct (next_draw O ds) as [r dsr].
    destruct (sim_reset_ok (esim e) i r Hi) as (s' & b & Es). rewrite Es. eauto.
  Qed.

  (* the simulator's own position-less checks are unreachable: every refusal is a located one *)
  Definition unlocated (r : eres) : Prop := match r with RErr (ESimUnlocated _) => True | _ => False end.

  Lemma ev_gate_located (e : evq) g i x : FInv e -> ev_gate O e g i = inr x -> x = EMeasuredLocated \/ x = ERangeLocated.
  Proof.
    intros FI. unfold ev_gate, ensure_active_ev, ensure_exists.
    destruct (Nat.ltb_spec i (length (eflags e))) as [Hi|Hi]; [|intros [= <-]; auto].
    destruct (nth i (eflags e) false) eqn:Hf; [intros [= <-]; auto|].
    assert (Hi' : i < nq (esim e)) by (destruct FI; lia).
    unfold sim_gate. rewrite (sim_active_of_flags e i FI Hi' Hf). discriminate.
  Qed.
End P.
