(* C05, the replay half: the simulator allocates qubits lazily (the state doubles when a declaration is reached),
   the emitted OpenQASM declares the whole register up front.  Every operation on qubits that exist commutes with
   allocation, so the lazily allocated run ends in exactly the state obtained by allocating all the qubits first and
   then performing the logged operations with the same draws.  Over the reals (the abstract scalar type has no ring
   laws; the amplitudes of the fresh half are combinations of zeros). *)
From Coq Require Import Reals Lra Lia List Arith Bool PeanoNat.
From Bloch Require Import Common.ListUpd Sim.SimModel Sim.SimLoops Sim.CxLoops Sim.SimReal Sim.SimNorm Sim.SimInv Sim.QasmLog.
Import ListNotations.
Local Open Scope R_scope.

Notation pad := (alloc_state Rops).
Notation z := (c0 Rops).

Lemma nth_pad k st : nth k (pad st) z = nth k st z.
Proof.
  unfold alloc_state. destruct (Nat.lt_ge_cases k (length st)) as [H|H].
  - apply app_nth1. exact H.
  - rewrite app_nth2 by exact H. rewrite (nth_overflow st) by exact H. apply nth_repeat.
Qed.

Lemma pad_length st : length (pad st) = (2 * length st)%nat.
Proof. unfold alloc_state. rewrite app_length, repeat_length. lia. Qed.

Lemma zero_comb a b : cadd Rops (cmul Rops a z) (cmul Rops b z) = z.
Proof. unfold cadd, cmul, c0. cbn. f_equal; ring. Qed.

Lemma zero_div r : cdivr Rops z r = z.
Proof. unfold cdivr, c0. cbn. f_equal; unfold Rdiv; ring. Qed.

(* in the fresh half (bit n set) the partner obtained by clearing a lower bit is in the fresh half too *)
Lemma high_sub n q k : (q < n)%nat -> (2 ^ n <= k)%nat -> Nat.testbit k q = true -> (2 ^ n <= k - 2 ^ q)%nat.
Proof.
  intros Hq Hk Hb. apply Nat.testbit_true in Hb.
  assert (P : (2 ^ n = 2 ^ q * (2 * 2 ^ (n - q - 1)))%nat).
  { replace (2 * 2 ^ (n - q - 1))%nat with (2 ^ (S (n - q - 1)))%nat by (cbn; lia).
    rewrite <- Nat.pow_add_r. f_equal. lia. }
  set (M := (2 * 2 ^ (n - q - 1))%nat) in *.
  assert (Hpos : (2 ^ q <> 0)%nat) by (apply Nat.pow_nonzero; lia).
  assert (Hd : (M <= k / 2 ^ q)%nat) by (apply Nat.div_le_lower_bound; [exact Hpos | rewrite <- P; exact Hk]).
  assert (Hne : (k / 2 ^ q <> M)%nat).
  { intro E. rewrite E in Hb. unfold M in Hb. rewrite Nat.mul_comm, Nat.mod_mul in Hb by lia. discriminate. }
  pose proof (Nat.mul_div_le k (2 ^ q) Hpos) as Hle.
  assert (Hm : (2 ^ q * (M + 1) <= 2 ^ q * (k / 2 ^ q))%nat) by (apply Nat.mul_le_mono_l; lia).
  rewrite Nat.mul_add_distr_l, <- P in Hm. lia.
Qed.

Lemma apply1_pad n q m st : (q < n)%nat -> length st = (2 ^ n)%nat ->
  apply1 Rops q m (pad st) = pad (apply1 Rops q m st).
Proof.
  intros Hq Hl.
  assert (Hlp : length (pad st) = (2 ^ S n)%nat) by (rewrite pad_length, Hl; cbn; lia).
  apply (nth_ext _ _ z z).
  - rewrite apply1_length, !pad_length, apply1_length. reflexivity.
  - intros k Hk. rewrite apply1_length, Hlp in Hk.
    rewrite (apply1_embed Rops (S n)) by (auto; lia). rewrite nth_pad.
    unfold embed1. rewrite !nth_pad.
    destruct (Nat.lt_ge_cases k (2 ^ n)) as [Hlt|Hge].
    + rewrite (apply1_embed Rops n) by auto. unfold embed1. reflexivity.
    + rewrite (nth_overflow (apply1 Rops q m st)) by (rewrite apply1_length, Hl; exact Hge).
      destruct (Nat.testbit k q) eqn:Hb.
      * rewrite (nth_overflow st (n := k - 2 ^ q)) by (rewrite Hl; apply high_sub; auto).
        rewrite (nth_overflow st (n := k)) by (rewrite Hl; exact Hge). apply zero_comb.
      * rewrite (nth_overflow st (n := k)) by (rewrite Hl; exact Hge).
        rewrite (nth_overflow st (n := k + 2 ^ q)) by (rewrite Hl; lia). apply zero_comb.
Qed.

Lemma cx_pad n c t st : (c < n)%nat -> (t < n)%nat -> length st = (2 ^ n)%nat ->
  cx_model Rops c t (pad st) = pad (cx_model Rops c t st).
Proof.
  intros Hc Ht Hl. destruct (Nat.eq_dec c t) as [->|Hne]; [rewrite !cx_same_qubit_id; reflexivity|].
  assert (Hlp : length (pad st) = (2 ^ S n)%nat) by (rewrite pad_length, Hl; cbn; lia).
  apply (nth_ext _ _ z z).
  - rewrite cx_model_length, !pad_length, cx_model_length. reflexivity.
  - intros k Hk. rewrite cx_model_length, Hlp in Hk.
    rewrite (cx_model_spec Rops (S n)) by (auto; lia). rewrite nth_pad.
    unfold cx_spec. rewrite !nth_pad.
    destruct (Nat.lt_ge_cases k (2 ^ n)) as [Hlt|Hge].
    + rewrite (cx_model_spec Rops n) by auto. unfold cx_spec. reflexivity.
    + rewrite (nth_overflow (cx_model Rops c t st)) by (rewrite cx_model_length, Hl; exact Hge).
      destruct (Nat.testbit k c); [|apply nth_overflow; rewrite Hl; exact Hge].
      destruct (Nat.testbit k t) eqn:Hb; apply nth_overflow; rewrite Hl; [apply high_sub; auto | lia].
Qed.

Lemma isum_zeros f off k : (forall j, f j z = 0) -> isum f off (repeat z k) = 0.
Proof. intro H. revert off. induction k as [|k IH]; intro off; cbn [repeat isum]; [reflexivity|]. rewrite IH, H. lra. Qed.

Lemma prob1_pad q st : prob1 Rops q (pad st) = prob1 Rops q st.
Proof.
  rewrite !prob1_isum. unfold alloc_state. rewrite isum_app, isum_zeros; [lra|].
  intro j. unfold w1f. destruct (Nat.testbit j q); [apply cn2_c0 | reflexivity].
Qed.

Lemma prob0_pad q st : prob0 Rops q (pad st) = prob0 Rops q st.
Proof.
  rewrite !prob0_isum. unfold alloc_state. rewrite isum_app, isum_zeros; [lra|].
  intro j. unfold w0f. destruct (Nat.testbit j q); [reflexivity | apply cn2_c0].
Qed.

Lemma imap_pad f st : (forall k, (length st <= k)%nat -> f k z = z) -> imap f 0 (pad st) = pad (imap f 0 st).
Proof.
  intro Hz. apply (nth_ext _ _ z z).
  - rewrite imap_length, !pad_length, imap_length. reflexivity.
  - intros k Hk. rewrite imap_length in Hk. rewrite nth_imap by exact Hk. cbn [plus]. rewrite !nth_pad.
    destruct (Nat.lt_ge_cases k (length st)) as [Hlt|Hge].
    + rewrite nth_imap by exact Hlt. reflexivity.
    + rewrite (nth_overflow st) by exact Hge. rewrite (nth_overflow (imap f 0 st)) by (rewrite imap_length; exact Hge). apply Hz. exact Hge.
Qed.

Lemma measure_pad q r st :
  measure_state Rops q r (pad st) = (fst (measure_state Rops q r st), pad (snd (measure_state Rops q r st))).
Proof.
  assert (Ef : fst (measure_state Rops q r (pad st)) = fst (measure_state Rops q r st)).
  { unfold measure_state. cbn [fst]. rewrite prob1_pad, prob0_pad. reflexivity. }
  rewrite (surjective_pairing (measure_state Rops q r (pad st))). f_equal; [exact Ef|].
  rewrite !measure_post_raw. cbv zeta. rewrite Ef.
  set (res := fst (measure_state Rops q r st)).
  assert (Ew : wbranch q res (pad st) = wbranch q res st) by (unfold wbranch; rewrite prob1_pad, prob0_pad; reflexivity).
  rewrite Ew. apply imap_pad. intros k _. unfold collapsef. destruct (Bool.eqb (Nat.testbit k q) res); [apply zero_div | reflexivity].
Qed.

Lemma imap_ext_in f g off st : (forall j, (j < length st)%nat -> f (off + j)%nat (nth j st z) = g (off + j)%nat (nth j st z)) ->
  imap f off st = imap g off st.
Proof.
  revert off. induction st as [|a r IH]; intros off H; cbn [imap]; [reflexivity|]. f_equal.
  - specialize (H 0%nat (Nat.lt_0_succ _)). rewrite Nat.add_0_r in H. exact H.
  - apply IH. intros j Hj. specialize (H (S j) (proj1 (Nat.succ_lt_mono _ _) Hj)). cbn [nth] in H.
    rewrite Nat.add_succ_r in H. exact H.
Qed.

Lemma reset_pad n q r st : (q < n)%nat -> length st = (2 ^ n)%nat ->
  reset_state Rops q r (pad st) = (fst (reset_state Rops q r st), pad (snd (reset_state Rops q r st))).
Proof.
  intros Hq Hl.
  assert (Ef : fst (reset_state Rops q r (pad st)) = fst (reset_state Rops q r st)).
  { unfold reset_state. cbn [fst]. rewrite prob1_pad, prob0_pad. reflexivity. }
  rewrite (surjective_pairing (reset_state Rops q r (pad st))). f_equal; [exact Ef|].
  rewrite !reset_post_raw. cbv zeta. rewrite Ef.
  set (one := fst (reset_state Rops q r st)).
  assert (Ew : wbranch q one (pad st) = wbranch q one st) by (unfold wbranch; rewrite prob1_pad, prob0_pad; reflexivity).
  rewrite Ew. set (nrm := sqrt (wbranch q one st)).
  (* the closure over the state reads the same amplitudes *)
  rewrite (imap_ext_in (resetf q one nrm (pad st)) (resetf q one nrm st) 0 (pad st)).
  2:{ intros j _. unfold resetf. rewrite nth_pad. reflexivity. }
  apply imap_pad. intros k Hk. unfold resetf. destruct (Nat.testbit k q); [reflexivity|].
  destruct one; [|apply zero_div]. rewrite (nth_overflow st) by lia. apply zero_div.
Qed.

(* ---------- the simulator object ---------- *)
Definition pad_sim (s : sim (F:=R)) : sim := fst (sim_alloc Rops s).

Definition WF (s : sim (F:=R)) : Prop := length (amps s) = (2 ^ nq s)%nat /\ length (meas s) = nq s.

Lemma WF_init : WF (sim_init Rops).
Proof. split; reflexivity. Qed.

Lemma pad_sim_eq s : WF s ->
  pad_sim s = {| nq := S (nq s); amps := pad (amps s); meas := meas s ++ [false]; qlog := qlog s |}.
Proof.
  intros [_ Hm]. unfold pad_sim, sim_alloc. cbn [fst]. f_equal.
  rewrite Hm, Nat.leb_refl. replace (S (nq s) - nq s)%nat with 1%nat by lia. reflexivity.
Qed.

Lemma WF_pad s : WF s -> WF (pad_sim s).
Proof.
  intros W. rewrite (pad_sim_eq s W). destruct W as [Ha Hm]. split; cbn [amps nq meas].
  - rewrite pad_length, Ha. cbn. lia.
  - rewrite app_length, Hm. cbn. lia.
Qed.

Lemma ensure_active_pad s q : WF s -> ensure_active s q = None -> ensure_active (pad_sim s) q = None.
Proof.
  intros W E. rewrite (pad_sim_eq s W). unfold ensure_active in *. cbn [nq meas].
  destruct (Nat.leb_spec (nq s) q) as [|Hq]; [discriminate|].
  destruct (Nat.leb_spec (S (nq s)) q); [lia|].
  rewrite app_nth1 by (destruct W as [_ Hm]; rewrite Hm; exact Hq). exact E.
Qed.

Lemma upd_snoc {A} q (b x : A) m : (q < length m)%nat -> upd q b (m ++ [x]) = upd q b m ++ [x].
Proof.
  revert q. induction m as [|y r IH]; intros q Hq; [cbn in Hq; lia|].
  destruct q as [|q]; cbn; [reflexivity|]. f_equal. apply IH. cbn in Hq. lia.
Qed.

Lemma set_flag_snoc q b m : (q < length m)%nat -> set_flag q b (m ++ [false]) = set_flag q b m ++ [false].
Proof.
  intro Hq. unfold set_flag. rewrite app_length. cbn [length].
  destruct (Nat.ltb_spec q (length m + 1)); [|lia]. destruct (Nat.ltb_spec q (length m)); [|lia].
  apply upd_snoc. exact Hq.
Qed.

Lemma set_flag_length q b m : length (set_flag q b m) = length m.
Proof. unfold set_flag. destruct (q <? length m)%nat; [apply upd_length | reflexivity]. Qed.

(* a successful operation commutes with allocating one more qubit *)
Lemma step_commutes s o r s1 b : WF s -> sim_step Rops s (SOp o r) = (s1, None, b) ->
  WF s1 /\ sim_step Rops (pad_sim s) (SOp o r) = (pad_sim s1, None, b).
Proof.
  intros W H. pose proof W as [Ha Hm].
  destruct o as [g q|c t|q|q]; cbn [sim_step] in *.
  - (* gate *)
    unfold sim_gate in *. destruct (ensure_active s q) eqn:E; [discriminate|]. injection H as <- <-.
    pose proof (ensure_active_range s q E) as Hq.
    assert (W1 : WF {| nq := nq s; amps := apply1 Rops q (gate_matrix Rops g) (amps s); meas := meas s; qlog := qlog s ++ [OGate g q] |}).
    { split; cbn [amps nq meas]; [rewrite apply1_length; exact Ha | exact Hm]. }
    split; [exact W1|]. rewrite (ensure_active_pad s q W E). rewrite (pad_sim_eq _ W1), (pad_sim_eq s W). cbn [nq amps meas qlog].
    rewrite (apply1_pad (nq s)) by assumption. reflexivity.
  - (* cx *)
    unfold sim_cx in *. destruct (ensure_active s c) eqn:Ec; [discriminate|]. destruct (ensure_active s t) eqn:Et; [discriminate|].
    injection H as <- <-.
    pose proof (ensure_active_range s c Ec) as Hc. pose proof (ensure_active_range s t Et) as Ht.
    assert (W1 : WF {| nq := nq s; amps := cx_model Rops c t (amps s); meas := meas s; qlog := qlog s ++ [OCx c t] |}).
    { split; cbn [amps nq meas]; [rewrite cx_model_length; exact Ha | exact Hm]. }
    split; [exact W1|]. rewrite (ensure_active_pad s c W Ec), (ensure_active_pad s t W Et).
    rewrite (pad_sim_eq _ W1), (pad_sim_eq s W). cbn [nq amps meas qlog].
    rewrite (cx_pad (nq s)) by assumption. reflexivity.
  - (* reset *)
    unfold sim_reset in *. destruct (Nat.leb_spec (nq s) q) as [|Hq]; [discriminate|].
    destruct (reset_state Rops q r (amps s)) as [one st'] eqn:Er. injection H as <- <-.
    assert (W1 : WF {| nq := nq s; amps := st'; meas := set_flag q false (meas s); qlog := qlog s ++ [OReset q] |}).
    { split; cbn [amps nq meas].
      - replace st' with (snd (reset_state Rops q r (amps s))) by (rewrite Er; reflexivity). rewrite reset_state_length. exact Ha.
      - rewrite set_flag_length. exact Hm. }
    split; [exact W1|]. rewrite (pad_sim_eq _ W1), (pad_sim_eq s W). cbn [nq amps meas qlog].
    destruct (Nat.leb_spec (S (nq s)) q); [lia|].
    rewrite (reset_pad (nq s)) by assumption. rewrite Er. cbn [fst snd].
    rewrite set_flag_snoc by (rewrite Hm; exact Hq). reflexivity.
  - (* measure *)
    unfold sim_measure in *. destruct (ensure_active s q) eqn:E; [discriminate|].
    destruct (measure_state Rops q r (amps s)) as [res st'] eqn:Em. injection H as <- <-.
    pose proof (ensure_active_range s q E) as Hq.
    assert (W1 : WF {| nq := nq s; amps := st'; meas := set_flag q true (meas s); qlog := qlog s ++ [OMeasure q] |}).
    { split; cbn [amps nq meas].
      - replace st' with (snd (measure_state Rops q r (amps s))) by (rewrite Em; reflexivity). rewrite measure_state_length. exact Ha.
      - rewrite set_flag_length. exact Hm. }
    split; [exact W1|]. rewrite (ensure_active_pad s q W E). rewrite (pad_sim_eq _ W1), (pad_sim_eq s W). cbn [nq amps meas qlog].
    rewrite measure_pad. rewrite Em. cbn [fst snd].
    rewrite set_flag_snoc by (rewrite Hm; exact Hq). reflexivity.
Qed.

Fixpoint pad_many (k : nat) (s : sim (F:=R)) : sim :=
  match k with O => s | S k' => pad_many k' (pad_sim s) end.

Lemma WF_pad_many k : forall s, WF s -> WF (pad_many k s).
Proof. induction k as [|k IH]; intros s W; cbn [pad_many]; [exact W | apply IH, WF_pad, W]. Qed.

Lemma step_commutes_many k : forall s o r s1 b, WF s -> sim_step Rops s (SOp o r) = (s1, None, b) ->
  sim_step Rops (pad_many k s) (SOp o r) = (pad_many k s1, None, b).
Proof.
  induction k as [|k IH]; intros s o r s1 b W H; cbn [pad_many]; [exact H|].
  destruct (step_commutes s o r s1 b W H) as [W1 H1]. exact (IH _ _ _ _ _ (WF_pad s W) H1).
Qed.

(* the operations of a scripted run that succeeded, with their draws, and the number of allocations *)
Fixpoint succeeded (s : sim (F:=R)) (os : list (sop (F:=R))) : list (sop (F:=R)) :=
  match os with
  | [] => []
  | o :: r =>
    let '(s1, e, _) := sim_step Rops s o in
    match o, e with
    | SOp _ _, None => o :: succeeded s1 r
    | _, _ => succeeded s1 r
    end
  end.
Fixpoint allocs (os : list (sop (F:=R))) : nat :=
  match os with [] => O | SAlloc :: r => S (allocs r) | _ :: r => allocs r end.

Lemma sim_step_WF s o : WF s -> WF (fst (fst (sim_step Rops s o))).
Proof.
  intro W. destruct o as [|o r].
  - cbn [sim_step fst]. apply (WF_pad s W).
  - destruct (sim_step Rops s (SOp o r)) as [[s1 e] b] eqn:E. cbn [fst]. destruct e as [err|].
    + (* a refused operation leaves the simulator as it was *)
      destruct o as [g q|c t|q|q]; cbn [sim_step] in E.
      * unfold sim_gate in E. destruct (ensure_active s q); [injection E as <- _ _; exact W | discriminate].
      * unfold sim_cx in E. destruct (ensure_active s c); [injection E as <- _ _; exact W|].
        destruct (ensure_active s t); [injection E as <- _ _; exact W | discriminate].
      * unfold sim_reset in E. destruct (nq s <=? q)%nat; [injection E as <- _ _; exact W|].
        destruct (reset_state Rops q r (amps s)). discriminate.
      * unfold sim_measure in E. destruct (ensure_active s q); [injection E as <- _ _; exact W|].
        destruct (measure_state Rops q r (amps s)). discriminate.
    + exact (proj1 (step_commutes s o r s1 b W E)).
Qed.

(* lazily allocated run = all qubits first, then the operations that succeeded, with the same draws *)
Theorem lazy_alloc_eq_upfront os : forall s, WF s ->
  fst (sim_run Rops s os) = fst (sim_run Rops (pad_many (allocs os) s) (succeeded s os)).
Proof.
  induction os as [|o rest IH]; intros s W; [reflexivity|].
  cbn [sim_run succeeded allocs].
  destruct (sim_step Rops s o) as [[s1 e] b] eqn:E.
  assert (W1 : WF s1) by (pose proof (sim_step_WF s o W) as H; rewrite E in H; exact H).
  destruct (sim_run Rops s1 rest) as [s2 tr] eqn:Er. cbn [fst].
  assert (E2 : s2 = fst (sim_run Rops s1 rest)) by (rewrite Er; reflexivity).
  destruct o as [|o r].
  - (* allocation: one more qubit up front *)
    cbn [sim_step] in E. injection E as <- <- <-. cbn [pad_many]. rewrite E2. apply (IH _ W1).
  - destruct e as [err|].
    + (* refused: nothing happened, nothing to replay *)
      assert (s1 = s).
      { destruct o as [g q|c t|q|q]; cbn [sim_step] in E.
        - unfold sim_gate in E. destruct (ensure_active s q); [injection E as <- _ _; reflexivity | discriminate].
        - unfold sim_cx in E. destruct (ensure_active s c); [injection E as <- _ _; reflexivity|].
          destruct (ensure_active s t); [injection E as <- _ _; reflexivity | discriminate].
        - unfold sim_reset in E. destruct (nq s <=? q)%nat; [injection E as <- _ _; reflexivity|].
          destruct (reset_state Rops q r (amps s)). discriminate.
        - unfold sim_measure in E. destruct (ensure_active s q); [injection E as <- _ _; reflexivity|].
          destruct (measure_state Rops q r (amps s)). discriminate. }
      subst s1. rewrite E2. apply (IH _ W).
    + cbn [sim_run]. rewrite (step_commutes_many (allocs rest) s o r s1 b W E).
      destruct (sim_run Rops (pad_many (allocs rest) s1) (succeeded s1 rest)) as [s3 tr3] eqn:E3. cbn [fst].
      rewrite E2, (IH _ W1), E3. reflexivity.
Qed.

(* what is replayed is the emitted log, in order *)
Lemma succeeded_is_the_log os : forall s,
  map (fun o => match o with SOp q _ => [q] | SAlloc => [] end) (succeeded s os) = map (fun q => [q]) (applied Rops s os).
Proof.
  induction os as [|o rest IH]; intro s; [reflexivity|].
  cbn [succeeded applied]. destruct (sim_step Rops s o) as [[s1 e] b] eqn:E.
  destruct o as [|q r]; [apply IH|]. destruct e; [apply IH|]. cbn [app map]. f_equal. apply IH.
Qed.

Corollary replay_from_scratch os :
  let s := fst (sim_run Rops (sim_init Rops) os) in
  s = fst (sim_run Rops (pad_many (allocs os) (sim_init Rops)) (succeeded (sim_init Rops) os)).
Proof. cbv zeta. apply lazy_alloc_eq_upfront, WF_init. Qed.
