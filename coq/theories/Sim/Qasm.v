(* Model of QasmSimulator::getQasm and of the log-line spelling of every operation. *)
From Coq Require Import List Arith Ascii String DecimalString DecimalNat.
From Bloch Require Import Sim.SimModel.
Import ListNotations.
Local Open Scope string_scope.

Definition dec (n : nat) : string := NilEmpty.string_of_uint (Nat.to_uint n).
Definition nl : string := String (ascii_of_nat 10) "".

Section Emit.
  Context {F : Type} (fmt : F -> string).    (* std::to_string(double) *)

  Definition qref (q : nat) : string := "q[" ++ dec q ++ "]".

  Definition op_line (o : qop F) : string :=
    match o with
    | OGate GH q => "h " ++ qref q ++ ";" ++ nl
    | OGate GX q => "x " ++ qref q ++ ";" ++ nl
    | OGate GY q => "y " ++ qref q ++ ";" ++ nl
    | OGate GZ q => "z " ++ qref q ++ ";" ++ nl
    | OGate (GRx t) q => "rx(" ++ fmt t ++ ") " ++ qref q ++ ";" ++ nl
    | OGate (GRy t) q => "ry(" ++ fmt t ++ ") " ++ qref q ++ ";" ++ nl
    | OGate (GRz t) q => "rz(" ++ fmt t ++ ") " ++ qref q ++ ";" ++ nl
    | OCx c t => "cx " ++ qref c ++ "," ++ qref t ++ ";" ++ nl
    | OReset q => "reset " ++ qref q ++ ";" ++ nl
    | OMeasure q => "measure " ++ qref q ++ " -> c[" ++ dec q ++ "];" ++ nl
    end.

  Definition header : string := "OPENQASM 2.0;" ++ nl ++ "include ""qelib1.inc"";" ++ nl.

  Definition emit (n : nat) (ops : list (qop F)) : string :=
    header ++ "qreg q[" ++ dec n ++ "];" ++ nl ++ "creg c[" ++ dec n ++ "];" ++ nl
    ++ fold_right append "" (map op_line ops).
End Emit.
