(* The QASM log is the history: every operation that succeeded, once, in order; the register is
   sized to the qubits allocated; every logged operand is in range and cx operands are distinct. *)
From Coq Require Import List Arith Lia Bool PeanoNat.
From Bloch Require Import Common.ListUpd Sim.SimModel Sim.EvalQ.
Import ListNotations.

Section Log.
  Context {F : Type} (O : sops F).
  Notation sim := (sim (F:=F)).
  Notation evq := (evq (F:=F)).

  Fixpoint applied (s : sim) (os : list (sop (F:=F))) : list (qop F) :=
    match os with
    | [] => []
    | o :: r =>
      let '(s1, e, _) := sim_step O s o in
      (match o, e with SOp q _, None => [q] | _, _ => [] end) ++ applied s1 r
    end.

  Lemma sim_step_log s o s1 e b : sim_step O s o = (s1, e, b) ->
    qlog s1 = qlog s ++ (match o, e with SOp q _, None => [q] | _, _ => [] end).
  Proof.
    destruct o as [|[g q|c t|q|q] r]; cbn [sim_step].
    - intros [= <- <- <-]. cbn. rewrite app_nil_r. reflexivity.
    - unfold sim_gate. destruct (ensure_active s q); intros [= <- <- <-]; cbn; rewrite ?app_nil_r; reflexivity.
    - unfold sim_cx. destruct (ensure_active s c); [intros [= <- <- <-]; cbn; rewrite ?app_nil_r; reflexivity|].
      destruct (ensure_active s t); intros [= <- <- <-]; cbn; rewrite ?app_nil_r; reflexivity.
    - unfold sim_reset. destruct (nq s <=? q); [intros [= <- <- <-]; cbn; rewrite ?app_nil_r; reflexivity|].
      destruct (reset_state O q r (amps s)). intros [= <- <- <-]. cbn. reflexivity.
    - unfold sim_measure. destruct (ensure_active s q); [intros [= <- <- <-]; cbn; rewrite ?app_nil_r; reflexivity|].
      destruct (measure_state O q r (amps s)). intros [= <- <- <-]. cbn. reflexivity.
  Qed.

  Theorem log_is_history os : forall s, qlog (fst (sim_run O s os)) = qlog s ++ applied s os.
  Proof.
    induction os as [|o r IH]; intros s; cbn [sim_run applied]; [rewrite app_nil_r; reflexivity|].
    destruct (sim_step O s o) as [[s1 e] b] eqn:Es. pose proof (sim_step_log s o s1 e b Es) as HL.
    destruct (sim_run O s1 r) as [s2 tr] eqn:E2. cbn [fst].
    replace s2 with (fst (sim_run O s1 r)) by (rewrite E2; reflexivity).
    rewrite IH, HL, <- app_assoc. reflexivity.
  Qed.

  (* ---- well-formedness of everything the evaluator lets into the log ---- *)
  Definition op_ok (n : nat) (o : qop F) : bool :=
    match o with
    | OGate _ q => q <? n
    | OCx c t => (c <? n) && (t <? n) && negb (c =? t)
    | OReset q => q <? n
    | OMeasure q => q <? n
    end.
  Definition LInv (s : sim) : Prop := Forall (fun o => op_ok (nq s) o = true) (qlog s).

  Lemma op_ok_mono n m o : n <= m -> op_ok n o = true -> op_ok m o = true.
  Proof.
    intros H. assert (L : forall q, (q <? n) = true -> (q <? m) = true).
    { intros q Hq. apply Nat.ltb_lt in Hq. apply Nat.ltb_lt. lia. }
    destruct o as [g q|c t|q|q]; cbn [op_ok]; auto.
    rewrite !andb_true_iff. intros [[A B] D]. auto.
  Qed.

  Lemma LInv_snoc (s : sim) o : LInv s -> op_ok (nq s) o = true ->
    forall s', nq s' = nq s -> qlog s' = qlog s ++ [o] -> LInv s'.
  Proof. intros L Ho s' En El. unfold LInv. rewrite El, En. apply Forall_app. split; [exact L|]. constructor; auto. Qed.

  Lemma ensure_active_lt (s : sim) q : ensure_active s q = None -> q < nq s.
  Proof. unfold ensure_active. destruct (Nat.leb_spec (nq s) q); [discriminate|auto]. Qed.

  Lemma sim_gate_linv (s s' : sim) g q : LInv s -> sim_gate O s g q = inl s' -> LInv s' /\ nq s' = nq s.
  Proof.
    unfold sim_gate. intros L. destruct (ensure_active s q) eqn:E; [discriminate|]. intros [= <-]. split; [|reflexivity].
    apply (LInv_snoc s (OGate g q)); auto. cbn [op_ok]. apply Nat.ltb_lt, ensure_active_lt. assumption.
  Qed.
  Lemma sim_reset_linv (s s' : sim) q r b : LInv s -> sim_reset O s q r = inl (s', b) -> LInv s' /\ nq s' = nq s.
  Proof.
    unfold sim_reset. intros L. destruct (Nat.leb_spec (nq s) q); [discriminate|].
    destruct (reset_state O q r (amps s)). intros [= <- <-]. split; [|reflexivity].
    apply (LInv_snoc s (OReset q)); auto. cbn [op_ok]. apply Nat.ltb_lt. assumption.
  Qed.
  Lemma sim_measure_linv (s s' : sim) q r b : LInv s -> sim_measure O s q r = inl (s', b) -> LInv s' /\ nq s' = nq s.
  Proof.
    unfold sim_measure. intros L. destruct (ensure_active s q) eqn:E; [discriminate|].
    destruct (measure_state O q r (amps s)). intros [= <- <-]. split; [|reflexivity].
    apply (LInv_snoc s (OMeasure q)); auto. cbn [op_ok]. apply Nat.ltb_lt, ensure_active_lt. assumption.
  Qed.
  Lemma sim_alloc_linv (s : sim) : LInv s -> LInv (fst (sim_alloc O s)) /\ nq (fst (sim_alloc O s)) = S (nq s).
  Proof.
    intros L. unfold sim_alloc. cbn. split; [|reflexivity]. unfold LInv in *. cbn.
    eapply Forall_impl; [|exact L]. intros o. apply op_ok_mono. lia.
  Qed.

  (* evaluator level: cx additionally requires distinct operands *)
  Lemma ev_cx_linv (e e' : evq) c t : LInv (esim e) -> ev_cx O e c t = inl e' -> LInv (esim e').
  Proof.
    unfold ev_cx. intros L. destruct (ensure_active_ev e c); [discriminate|]. destruct (ensure_active_ev e t); [discriminate|].
    destruct (Nat.eqb_spec c t) as [|Hne]; [discriminate|].
    unfold sim_cx. destruct (ensure_active (esim e) c) eqn:Ec; [discriminate|].
    destruct (ensure_active (esim e) t) eqn:Et; [discriminate|]. intros [= <-]. cbn [esim with_sim].
    apply (LInv_snoc (esim e) (OCx c t)); auto. cbn [op_ok].
    apply ensure_active_lt in Ec, Et. apply Nat.ltb_lt in Ec, Et. rewrite Ec, Et. cbn [andb].
    apply negb_true_iff, Nat.eqb_neq. assumption.
  Qed.

  Lemma ev_gate_linv (e e' : evq) g i : LInv (esim e) -> ev_gate O e g i = inl e' -> LInv (esim e').
  Proof.
    unfold ev_gate. intros L. destruct (ensure_active_ev e i); [discriminate|].
    destruct (sim_gate O (esim e) g i) as [s'|] eqn:E; [|discriminate]. intros [= <-]. cbn.
    apply (sim_gate_linv _ _ _ _ L E).
  Qed.
  Lemma ev_measure_linv (e e' : evq) i ds b ds' : LInv (esim e) -> ev_measure O e i ds = inl (e', b, ds') -> LInv (esim e').
  Proof.
    unfold ev_measure. intros L. destruct (ensure_active_ev e i); [discriminate|]. destruct (next_draw O ds) as [r dr].
    destruct (sim_measure O (esim e) i r) as [[s' b0]|] eqn:E; [|discriminate]. intros [= <- <- <-]. cbn.
    apply (sim_measure_linv _ _ _ _ _ L E).
  Qed.
  Lemma ev_reset_linv (e e' : evq) i ds ds' : LInv (esim e) -> ev_reset O e i ds = inl (e', ds') -> LInv (esim e').
  Proof.
    unfold ev_reset. intros L. destruct (ensure_exists e i); [discriminate|]. destruct (next_draw O ds) as [r dr].
    destruct (sim_reset O (esim e) i r) as [[s' b0]|] eqn:E; [|discriminate]. intros [= <- <-]. cbn.
    apply (sim_reset_linv _ _ _ _ _ L E).
  Qed.
  Lemma ev_measure_all_linv is : forall (e e' : evq) ds bs ds' err,
    LInv (esim e) -> ev_measure_all O e is ds = (e', bs, ds', err) -> LInv (esim e').
  Proof.
    induction is as [|i r IH]; intros e e' ds bs ds' err L; cbn [ev_measure_all].
    - intros [= <- <- <- <-]. assumption.
    - destruct (ev_measure O e i ds) as [[[e1 b] ds1]|x] eqn:E1; [|intros [= <- <- <- <-]; assumption].
      destruct (ev_measure_all O e1 r ds1) as [[[e2 bs2] ds2] err2] eqn:E2. intros [= <- <- <- <-].
      eapply IH; [|exact E2]. eapply ev_measure_linv; eauto.
  Qed.
  Lemma ev_release_linv is : forall (e e' : evq) ds ds',
    LInv (esim e) -> ev_release O e is ds = inl (e', ds') -> LInv (esim e').
  Proof.
    induction is as [|i r IH]; intros e e' ds ds' L; cbn [ev_release].
    - intros [= <- <-]. assumption.
    - destruct (ev_reset O e i ds) as [[e1 ds1]|] eqn:E1; [|discriminate]. intros E2.
      eapply IH; [|exact E2]. cbn. eapply ev_reset_linv; eauto.
  Qed.
  Lemma alloc_tracked_linv (e e' : evq) ds idx ds' : LInv (esim e) -> alloc_tracked O e ds = (e', idx, ds') -> LInv (esim e').
  Proof.
    unfold alloc_tracked. intros L. destruct (efree e) as [|i0 rest].
    - destruct (sim_alloc O (esim e)) as [s' i1] eqn:Ea. intros [= <- <- <-]. cbn.
      replace s' with (fst (sim_alloc O (esim e))) by (rewrite Ea; reflexivity). apply sim_alloc_linv. assumption.
    - destruct (next_draw O ds) as [r dr].
      destruct (sim_reset O (esim e) i0 r) as [[s' b]|] eqn:E; intros [= <- <- <-]; cbn; [|assumption].
      apply (sim_reset_linv _ _ _ _ _ L E).
  Qed.
  Lemma alloc_many_linv k : forall (e e' : evq) ds is ds', LInv (esim e) -> alloc_many O k e ds = (e', is, ds') -> LInv (esim e').
  Proof.
    induction k as [|k IH]; intros e e' ds is ds' L; cbn [alloc_many]; [intros [= <- <- <-]; assumption|].
    destruct (alloc_tracked O e ds) as [[e1 i] ds1] eqn:E1.
    destruct (alloc_many O k e1 ds1) as [[e2 is2] ds2] eqn:E2. intros [= <- <- <-].
    eapply IH; [|exact E2]. eapply alloc_tracked_linv; eauto.
  Qed.

  Theorem ev_step_linv (e e' : evq) o ds res ds' : LInv (esim e) -> ev_step O e o ds = (e', res, ds') -> LInv (esim e').
  Proof.
    intros L. destruct o as [k|g h el|h1 e1 h2 e2|h el|h|h el|h]; cbn [ev_step].
    - destruct (alloc_many O k e ds) as [[e1 is] ds1] eqn:E. intros [= <- <- <-]. cbn. eapply alloc_many_linv; eauto.
    - destruct (resolve e h el) as [i|]; [|intros [= <- <- <-]; assumption].
      destruct (ev_gate O e g i) as [e1|] eqn:E; intros [= <- <- <-]; [|assumption]. eapply ev_gate_linv; eauto.
    - destruct (resolve e h1 e1) as [c|]; [|intros [= <- <- <-]; assumption].
      destruct (resolve e h2 e2) as [t|]; [|intros [= <- <- <-]; assumption].
      destruct (ev_cx O e c t) as [e3|] eqn:E; intros [= <- <- <-]; [|assumption]. eapply ev_cx_linv; eauto.
    - destruct (resolve e h el) as [i|]; [|intros [= <- <- <-]; assumption].
      destruct (ev_measure O e i ds) as [[[e1 b] ds1]|] eqn:E; intros [= <- <- <-]; [|assumption]. eapply ev_measure_linv; eauto.
    - destruct (handle e h) as [is|]; [|intros [= <- <- <-]; assumption].
      destruct (ev_measure_all O e is ds) as [[[e1 bs] ds1] err] eqn:E.
      destruct err; intros [= <- <- <-]; eapply ev_measure_all_linv; eauto.
    - destruct (resolve e h el) as [i|]; [|intros [= <- <- <-]; assumption].
      destruct (ev_reset O e i ds) as [[e1 ds1]|] eqn:E; intros [= <- <- <-]; [|assumption]. eapply ev_reset_linv; eauto.
    - destruct (handle e h) as [is|]; [|intros [= <- <- <-]; assumption].
      destruct (ev_release O e is ds) as [[e1 ds1]|] eqn:E; intros [= <- <- <-]; [|assumption]. cbn. eapply ev_release_linv; eauto.
  Qed.

  Theorem ev_run_linv os : forall (e e' : evq) ds tr, LInv (esim e) -> ev_run O e os ds = (e', tr) -> LInv (esim e').
  Proof.
    induction os as [|o r IH]; intros e e' ds tr L; cbn [ev_run]; [intros [= <- <-]; assumption|].
    destruct (ev_step O e o ds) as [[e1 res] ds1] eqn:E1. apply ev_step_linv in E1; [|assumption].
    destruct res; [|intros [= <- <-]; assumption].
    destruct (ev_run O e1 r ds1) as [e2 tr2] eqn:E2. intros [= <- <-]. eapply IH; eauto.
  Qed.

  Corollary emitted_ops_wellformed os ds :
    let s := esim (fst (ev_run O (evq_init O) os ds)) in Forall (fun o => op_ok (nq s) o = true) (qlog s).
  Proof.
    cbv zeta. destruct (ev_run O (evq_init O) os ds) as [e tr] eqn:E. cbn [fst].
    eapply ev_run_linv; [|exact E]. constructor.
  Qed.
End Log.
