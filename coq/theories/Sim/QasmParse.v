(* An independent reader for the OpenQASM 2.0 subset the simulator emits, and the round trip
   parse (emit n ops) = (n, ops): nothing lost, nothing duplicated, order kept. *)
From Coq Require Import List Arith Ascii String DecimalString DecimalNat Decimal Bool Lia.
From Bloch Require Import Sim.SimModel Sim.Qasm.
Import ListNotations.
Local Open Scope string_scope.
Local Open Scope nat_scope.

(* ---------- string helpers ---------- *)
Fixpoint strip_prefix (p s : string) : option string :=
  match p with
  | EmptyString => Some s
  | String c p' => match s with
                   | String d s' => if Ascii.eqb c d then strip_prefix p' s' else None
                   | EmptyString => None
                   end
  end.

Lemma strip_prefix_app p s : strip_prefix p (p ++ s) = Some s.
Proof. induction p as [|c p IH]; cbn; [reflexivity|]. rewrite Ascii.eqb_refl. exact IH. Qed.

Definition is_digit (c : ascii) : bool :=
  let n := nat_of_ascii c in (48 <=? n) && (n <=? 57).

Fixpoint span (P : ascii -> bool) (s : string) : string * string :=
  match s with
  | EmptyString => (EmptyString, EmptyString)
  | String c r => if P c then let (a, b) := span P r in (String c a, b) else (EmptyString, s)
  end.

Definition all_chars (P : ascii -> bool) (s : string) : Prop :=
  forall c, In c (list_ascii_of_string s) -> P c = true.
Definition stops_at (P : ascii -> bool) (s : string) : Prop :=
  match s with EmptyString => True | String c _ => P c = false end.

Lemma span_app P a b : all_chars P a -> stops_at P b -> span P (a ++ b) = (a, b).
Proof.
  induction a as [|c a IH]; intros Ha Hb; cbn.
  - destruct b as [|d b]; [reflexivity|]. cbn in Hb. cbn. rewrite Hb. reflexivity.
  - rewrite (Ha c) by (left; reflexivity). rewrite IH; [reflexivity| |assumption].
    intros d Hd. apply Ha. right. assumption.
Qed.

(* decimal naturals *)
Definition parse_nat (s : string) : option (nat * string) :=
  let (ds, rest) := span is_digit s in
  match ds with
  | EmptyString => None
  | _ => match NilEmpty.uint_of_string ds with
         | Some u => Some (Nat.of_uint u, rest)
         | None => None
         end
  end.

Lemma string_of_uint_digits u : all_chars is_digit (NilEmpty.string_of_uint u).
Proof.
  induction u; cbn; intros c Hc; try (destruct Hc as [<-|Hc]; [reflexivity|apply IHu; assumption]).
  destruct Hc.
Qed.

Lemma to_uint_nonempty n : NilEmpty.string_of_uint (Nat.to_uint n) <> EmptyString.
Proof.
  intros H.
  assert (E : NilEmpty.uint_of_string (NilEmpty.string_of_uint (Nat.to_uint n)) = Some (Nat.to_uint n)) by apply NilEmpty.usu.
  rewrite H in E. cbn in E. injection E as E.
  pose proof (DecimalNat.Unsigned.of_to n) as R. rewrite <- E in R. cbn in R.
  (* Nat.to_uint n = Nil would make n = 0, but Nat.to_uint 0 = D0 Nil *)
  subst n. cbn in E. discriminate.
Qed.

Lemma parse_nat_dec n rest : stops_at is_digit rest -> parse_nat (dec n ++ rest) = Some (n, rest).
Proof.
  intros Hr. unfold parse_nat, dec. rewrite span_app by (auto using string_of_uint_digits).
  pose proof (to_uint_nonempty n) as Hne.
  destruct (NilEmpty.string_of_uint (Nat.to_uint n)) as [|c s] eqn:E; [congruence|].
  rewrite <- E, NilEmpty.usu, DecimalNat.Unsigned.of_to. reflexivity.
Qed.

(* ---------- the reader ---------- *)
Definition bind {A B} (o : option A) (f : A -> option B) : option B := match o with Some a => f a | None => None end.
Notation "'do' x <- o ; k" := (bind o (fun x => k)) (at level 200, x pattern, o at level 100, k at level 200).

Definition p_qref (s : string) : option (nat * string) :=
  do s1 <- strip_prefix "q[" s; do (n, s2) <- parse_nat s1; do s3 <- strip_prefix "]" s2; Some (n, s3).

Definition not_rparen (c : ascii) : bool := negb (Ascii.eqb c ")").
(* signed fixed-point text: [-]digits.digits *)
Definition real_text_ok (t : string) : bool :=
  let t1 := match t with String "-" r => r | _ => t end in
  let (i, r1) := span is_digit t1 in
  match i, r1 with
  | String _ _, String "." r2 => let (f, r3) := span is_digit r2 in
                                 match f, r3 with String _ _, EmptyString => true | _, _ => false end
  | _, _ => false
  end.

Definition p_end (s : string) : option string := strip_prefix (";" ++ nl) s.

Definition p_gate1 (g : gate1 string) (s : string) : option (qop string * string) :=
  do (q, s1) <- p_qref s; do s2 <- p_end s1; Some (OGate g q, s2).

Definition p_rot (mk : string -> gate1 string) (s : string) : option (qop string * string) :=
  let (t, s1) := span not_rparen s in
  if real_text_ok t then
    do s2 <- strip_prefix ") " s1; do (q, s3) <- p_qref s2; do s4 <- p_end s3; Some (OGate (mk t) q, s4)
  else None.

Definition p_line (s : string) : option (qop string * string) :=
  match strip_prefix "h " s with Some r => p_gate1 GH r | None =>
  match strip_prefix "x " s with Some r => p_gate1 GX r | None =>
  match strip_prefix "y " s with Some r => p_gate1 GY r | None =>
  match strip_prefix "z " s with Some r => p_gate1 GZ r | None =>
  match strip_prefix "rx(" s with Some r => p_rot GRx r | None =>
  match strip_prefix "ry(" s with Some r => p_rot GRy r | None =>
  match strip_prefix "rz(" s with Some r => p_rot GRz r | None =>
  match strip_prefix "cx " s with
  | Some r => do (c, s1) <- p_qref r; do s2 <- strip_prefix "," s1; do (t, s3) <- p_qref s2; do s4 <- p_end s3; Some (OCx c t, s4)
  | None =>
  match strip_prefix "reset " s with
  | Some r => do (q, s1) <- p_qref r; do s2 <- p_end s1; Some (OReset q, s2)
  | None =>
  match strip_prefix "measure " s with
  | Some r => do (q, s1) <- p_qref r; do s2 <- strip_prefix " -> c[" s1; do (c, s3) <- parse_nat s2;
              do s4 <- strip_prefix "]" s3; do s5 <- p_end s4;
              if q =? c then Some (OMeasure q, s5) else None
  | None => None
  end end end end end end end end end end.

Fixpoint p_lines (fuel : nat) (s : string) : option (list (qop string)) :=
  match s with
  | EmptyString => Some []
  | _ => match fuel with
         | O => None
         | S f => do (o, r) <- p_line s; do os <- p_lines f r; Some (o :: os)
         end
  end.

Definition parse_qasm (s : string) : option (nat * list (qop string)) :=
  do s1 <- strip_prefix header s;
  do s2 <- strip_prefix "qreg q[" s1; do (n, s3) <- parse_nat s2; do s4 <- strip_prefix ("];" ++ nl) s3;
  do s5 <- strip_prefix "creg c[" s4; do (m, s6) <- parse_nat s5; do s7 <- strip_prefix ("];" ++ nl) s6;
  if n =? m then do os <- p_lines (String.length s7) s7; Some (n, os) else None.

(* well-formedness of what a parsed program denotes: indices in range, cx on distinct qubits *)
Definition op_wf (n : nat) (o : qop string) : bool :=
  match o with
  | OGate _ q => q <? n
  | OCx c t => (c <? n) && (t <? n) && negb (c =? t)
  | OReset q => q <? n
  | OMeasure q => q <? n
  end.

(* ---------- round trip ---------- *)
Section RoundTrip.
  Context {F : Type} (fmt : F -> string).

  Definition tgate (g : gate1 F) : gate1 string :=
    match g with GH => GH | GX => GX | GY => GY | GZ => GZ
               | GRx t => GRx (fmt t) | GRy t => GRy (fmt t) | GRz t => GRz (fmt t) end.
  Definition top (o : qop F) : qop string :=
    match o with OGate g q => OGate (tgate g) q | OCx c t => OCx c t | OReset q => OReset q | OMeasure q => OMeasure q end.

  Definition angle_ok (o : qop F) : Prop :=
    match o with
    | OGate (GRx t) _ | OGate (GRy t) _ | OGate (GRz t) _ =>
        real_text_ok (fmt t) = true /\ all_chars not_rparen (fmt t)
    | _ => True
    end.

  Lemma app_assoc' (a b c : string) : (a ++ b) ++ c = a ++ (b ++ c).
  Proof. induction a; cbn; [reflexivity|]. rewrite IHa. reflexivity. Qed.

  Lemma p_qref_ok q rest : stops_at is_digit ("]" ++ rest) -> p_qref (qref q ++ rest) = Some (q, rest).
  Proof.
    intros _. unfold p_qref, qref. rewrite !app_assoc'. rewrite strip_prefix_app. cbn [bind].
    rewrite parse_nat_dec by reflexivity. cbn [bind]. rewrite strip_prefix_app. reflexivity.
  Qed.

  Lemma p_end_ok rest : p_end (";" ++ nl ++ rest) = Some rest.
  Proof. unfold p_end. rewrite <- app_assoc'. apply strip_prefix_app. Qed.

  Lemma p_gate1_ok g q rest : p_gate1 g (qref q ++ ";" ++ nl ++ rest) = Some (OGate g q, rest).
  Proof. unfold p_gate1. rewrite p_qref_ok by reflexivity. cbn [bind]. rewrite p_end_ok. reflexivity. Qed.

  Lemma p_rot_ok mk t q rest : real_text_ok t = true -> all_chars not_rparen t ->
    p_rot mk (t ++ ") " ++ qref q ++ ";" ++ nl ++ rest) = Some (OGate (mk t) q, rest).
  Proof.
    intros Hok Hnp. unfold p_rot. rewrite span_app by (auto; reflexivity). rewrite Hok.
    rewrite strip_prefix_app. cbn [bind]. rewrite p_qref_ok by reflexivity. cbn [bind]. rewrite p_end_ok. reflexivity.
  Qed.

  Lemma p_line_ok o rest : angle_ok o -> p_line (op_line fmt o ++ rest) = Some (top o, rest).
  Proof.
    intros Ha. destruct o as [g q|c t|q|q].
    - destruct g as [| | | |t|t|t]; cbn [op_line top tgate]; rewrite !app_assoc'; unfold p_line.
      + rewrite strip_prefix_app. apply p_gate1_ok.
      + cbn [strip_prefix append Ascii.eqb Bool.eqb]. rewrite (strip_prefix_app "" _) || idtac. apply p_gate1_ok.
      + cbn [strip_prefix append Ascii.eqb Bool.eqb]. apply p_gate1_ok.
      + cbn [strip_prefix append Ascii.eqb Bool.eqb]. apply p_gate1_ok.
      + cbn [strip_prefix append Ascii.eqb Bool.eqb]. destruct Ha as [H1 H2]. apply (p_rot_ok GRx); assumption.
      + cbn [strip_prefix append Ascii.eqb Bool.eqb]. destruct Ha as [H1 H2]. apply (p_rot_ok GRy); assumption.
      + cbn [strip_prefix append Ascii.eqb Bool.eqb]. destruct Ha as [H1 H2]. apply (p_rot_ok GRz); assumption.
    - cbn [op_line top]. rewrite !app_assoc'. unfold p_line. cbn [strip_prefix append Ascii.eqb Bool.eqb].
      rewrite p_qref_ok by reflexivity. cbn [bind strip_prefix append Ascii.eqb Bool.eqb].
      rewrite p_qref_ok by reflexivity. cbn [bind]. change (String ";" (nl ++ rest)) with (";" ++ nl ++ rest); rewrite p_end_ok. reflexivity.
    - cbn [op_line top]. rewrite !app_assoc'. unfold p_line. cbn [strip_prefix append Ascii.eqb Bool.eqb].
      rewrite p_qref_ok by reflexivity. cbn [bind]. change (String ";" (nl ++ rest)) with (";" ++ nl ++ rest); rewrite p_end_ok. reflexivity.
    - cbn [op_line top]. rewrite !app_assoc'. unfold p_line. cbn [strip_prefix append Ascii.eqb Bool.eqb].
      rewrite p_qref_ok by reflexivity. cbn [bind strip_prefix append Ascii.eqb Bool.eqb].
      rewrite parse_nat_dec by reflexivity. cbn [bind strip_prefix append Ascii.eqb Bool.eqb]. change (String ";" (nl ++ rest)) with (";" ++ nl ++ rest); rewrite p_end_ok. cbn [bind].
      rewrite Nat.eqb_refl. reflexivity.
  Qed.

  Lemma op_line_nonempty o rest : exists c r, op_line fmt o ++ rest = String c r.
  Proof. destruct o as [[| | | |t|t|t] q|c t|q|q]; cbn; eauto. Qed.

  Lemma p_lines_ok ops : forall fuel, List.length ops <= fuel -> Forall angle_ok ops ->
    p_lines fuel (fold_right append "" (map (op_line fmt) ops)) = Some (map top ops).
  Proof.
    induction ops as [|o ops IH]; intros fuel Hf Ha; cbn [map fold_right].
    - destruct fuel; reflexivity.
    - destruct fuel as [|fuel]; [cbn in Hf; lia|].
      inversion Ha as [|? ? Ho Hr]; subst.
      destruct (op_line_nonempty o (fold_right append "" (map (op_line fmt) ops))) as (c & r & E).
      cbn [p_lines]. rewrite E. rewrite <- E. rewrite p_line_ok by assumption. cbn [bind].
      rewrite IH by (cbn in Hf; auto; lia). reflexivity.
  Qed.

  Lemma length_lines ops : List.length ops <= String.length (fold_right append "" (map (op_line fmt) ops)).
  Proof.
    induction ops as [|o ops IH]; cbn [map fold_right List.length]; [lia|].
    destruct (op_line_nonempty o "") as (c & r & E).
    assert (L : forall a b, String.length (a ++ b) = String.length a + String.length b).
    { induction a; intros b; cbn; auto. }
    rewrite L. assert (1 <= String.length (op_line fmt o)).
    { destruct o as [[| | | |t|t|t] q|c0 t|q|q]; cbn; lia. }
    lia.
  Qed.

  (* the emitted program reads back as exactly the logged operations, in order, each once *)
  Theorem parse_emit n ops : Forall angle_ok ops ->
    parse_qasm (emit fmt n ops) = Some (n, map top ops).
  Proof.
    intros Ha. unfold parse_qasm, emit. rewrite strip_prefix_app. cbn [bind].
    rewrite strip_prefix_app. cbn [bind]. rewrite parse_nat_dec by reflexivity. cbn [bind].
    rewrite <- (app_assoc' "];" nl). rewrite strip_prefix_app. cbn [bind].
    rewrite strip_prefix_app. cbn [bind]. rewrite parse_nat_dec by reflexivity. cbn [bind].
    rewrite <- (app_assoc' "];" nl). rewrite strip_prefix_app. cbn [bind].
    rewrite Nat.eqb_refl. rewrite p_lines_ok; [reflexivity|apply length_lines|assumption].
  Qed.

  Lemma top_wf n o : op_wf n (top o) =
    match o with
    | OGate _ q => q <? n | OCx c t => (c <? n) && (t <? n) && negb (c =? t) | OReset q => q <? n | OMeasure q => q <? n
    end.
  Proof. destruct o as [g q|c t|q|q]; reflexivity. Qed.
End RoundTrip.

