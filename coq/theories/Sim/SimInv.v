(* C03: in every history the state is a unit vector of 2^n amplitudes. *)
From Coq Require Import Reals Lra Lia List Arith Bool PeanoNat.
From Bloch Require Import Common.ListUpd Sim.SimModel Sim.SimLoops Sim.CxLoops Sim.SimReal Sim.SimNorm Sim.EvalQ.
Import ListNotations.
Local Open Scope R_scope.

Definition SInv (s : sim (F:=R)) : Prop :=
  length (amps s) = (2 ^ nq s)%nat /\ norm2 (amps s) = 1.

Lemma SInv_init : SInv (sim_init Rops).
Proof. split; [reflexivity|]. unfold norm2, sim_init, cn2, cnorm2, cre. cbn. lra. Qed.

Lemma upd_nth_same {A} i (st : list A) d : upd i (nth i st d) st = st.
Proof. revert i. induction st as [|a r IH]; intros [|i]; cbn; auto. rewrite IH. reflexivity. Qed.

Lemma swap_same st i : swap_step Rops st i i = st.
Proof.
  unfold swap_step. rewrite (upd_nth_same i st). rewrite (upd_nth_same i st). reflexivity.
Qed.

Lemma cx_same_qubit_id c st : cx_model Rops c c st = st.
Proof.
  unfold cx_model. cbv zeta.
  assert (H : forall b m o, fst (cx_idx c c b m o) = snd (cx_idx c c b m o)).
  { intros b m o. unfold cx_idx. rewrite Nat.min_id, Nat.max_id, Nat.eqb_refl. cbn [fst snd].
    rewrite <- (Nat.lor_assoc _ (2 ^ c) (2 ^ c)), Nat.lor_diag. reflexivity. }
  assert (Fid : forall (A B : Type) (f : A -> B -> A) l a, (forall a x, f a x = a) -> fold_left f l a = a).
  { intros A B f l. induction l as [|x l IH]; intros a Hf; cbn; auto. rewrite Hf. apply IH. assumption. }
  apply Fid. intros st1 b. apply Fid. intros st2 m. apply Fid. intros st3 o.
  specialize (H b m o). destruct (cx_idx c c b m o) as [i0 i1]. cbn in H. subst i1. apply swap_same.
Qed.

Lemma ensure_active_range (s : sim (F:=R)) q : ensure_active s q = None -> (q < nq s)%nat.
Proof. unfold ensure_active. destruct (Nat.leb_spec (nq s) q); [discriminate|auto]. Qed.

Lemma measure_state_length q r st : length (snd (measure_state Rops q r st)) = length st.
Proof. rewrite measure_post_raw. apply imap_length. Qed.
Lemma reset_state_length q r st : length (snd (reset_state Rops q r st)) = length st.
Proof. rewrite reset_post_raw. apply imap_length. Qed.

Theorem sim_step_inv s o : SInv s ->
  (forall q0 r, o = SOp (OMeasure q0) r \/ o = SOp (OReset q0) r -> 0 <= r < 1) ->
  SInv (fst (fst (sim_step Rops s o))).
Proof.
  intros [HL HN] Hr. destruct o as [|[g q|c t|q|q] r]; cbn [sim_step].
  - unfold sim_alloc. cbn [fst]. split; cbn [amps nq].
    + unfold alloc_state. rewrite app_length, repeat_length, HL. cbn. lia.
    + rewrite alloc_norm. assumption.
  - unfold sim_gate. destruct (ensure_active s q) eqn:E; cbn [fst]; [split; assumption|].
    apply ensure_active_range in E. split; cbn [amps nq].
    + rewrite apply1_length. assumption.
    + rewrite (apply1_norm (nq s)); assumption.
  - unfold sim_cx. destruct (ensure_active s c) eqn:Ec; cbn [fst]; [split; assumption|].
    destruct (ensure_active s t) eqn:Et; cbn [fst]; [split; assumption|].
    apply ensure_active_range in Ec, Et. split; cbn [amps nq].
    + rewrite cx_model_length. assumption.
    + destruct (Nat.eq_dec c t) as [->|Hne]; [rewrite cx_same_qubit_id; assumption|].
      rewrite (cx_norm (nq s)); assumption.
  - unfold sim_reset. destruct (Nat.leb_spec (nq s) q); cbn [fst]; [split; assumption|].
    destruct (reset_state Rops q r (amps s)) as [one st'] eqn:E. cbn [fst].
    assert (Est : st' = snd (reset_state Rops q r (amps s))) by (rewrite E; reflexivity).
    split; cbn [amps nq]; rewrite Est.
    + rewrite reset_state_length. assumption.
    + apply (reset_norm (nq s)); auto. apply (Hr q r). right. reflexivity.
  - unfold sim_measure. destruct (ensure_active s q) eqn:E; cbn [fst]; [split; assumption|].
    destruct (measure_state Rops q r (amps s)) as [res st'] eqn:Em. cbn [fst].
    assert (Est : st' = snd (measure_state Rops q r (amps s))) by (rewrite Em; reflexivity).
    split; cbn [amps nq]; rewrite Est.
    + rewrite measure_state_length. assumption.
    + apply measure_norm; auto. apply (Hr q r). left. reflexivity.
Qed.

Definition valid_draws (os : list (sop (F:=R))) : Prop :=
  Forall (fun o => match o with SOp _ r => 0 <= r < 1 | SAlloc => True end) os.

Theorem sim_run_inv os : forall s, SInv s -> valid_draws os -> SInv (fst (sim_run Rops s os)).
Proof.
  induction os as [|o r IH]; intros s I V; cbn [sim_run]; [assumption|].
  inversion V as [|? ? Ho Vr]; subst.
  destruct (sim_step Rops s o) as [[s1 e] b] eqn:E1.
  destruct (sim_run Rops s1 r) as [s2 tr] eqn:E2. cbn [fst].
  replace s2 with (fst (sim_run Rops s1 r)) by (rewrite E2; reflexivity).
  apply IH; [|assumption].
  replace s1 with (fst (fst (sim_step Rops s o))) by (rewrite E1; reflexivity).
  apply sim_step_inv; [assumption|]. intros q0 r0 [->| ->]; exact Ho.
Qed.

Corollary reachable_unit_vector os : valid_draws os -> SInv (fst (sim_run Rops (sim_init Rops) os)).
Proof. intros V. apply sim_run_inv; [apply SInv_init|assumption]. Qed.
