(* The blocked in-place loops of the simulator compute the embedded operator.
   Generic in the element type: no arithmetic on amplitudes is used, so the result holds for
   every scalar instance (binary64 included). *)
From Coq Require Import List Arith Lia PeanoNat Bool.
From Bloch Require Import Common.ListUpd Sim.SimModel.
Import ListNotations.

Lemma filter_all {A} (P : A -> bool) l : (forall x, In x l -> P x = true) -> filter P l = l.
Proof. induction l as [|a l IH]; intros H; simpl; auto. rewrite H by (simpl; auto). f_equal. apply IH. intros; apply H; simpl; auto. Qed.
Lemma filter_none {A} (P : A -> bool) l : (forall x, In x l -> P x = false) -> filter P l = [].
Proof. induction l as [|a l IH]; intros H; simpl; auto. rewrite H by (simpl; auto). apply IH. intros; apply H; simpl; auto. Qed.
Lemma seq_as_map a n : seq a n = map (fun j => a + j) (seq 0 n).
Proof. revert a; induction n as [|n IH]; intros a; simpl; auto. f_equal; [lia|]. rewrite IH, <- (seq_shift n 0), map_map. apply map_ext. intros; lia. Qed.
Lemma fold_left_flat_map {A B C} (f : A -> C -> A) (g : B -> list C) l a :
  fold_left (fun acc b => fold_left f (g b) acc) l a = fold_left f (flat_map g l) a.
Proof. revert a; induction l as [|b l IH]; intros a; simpl; auto. rewrite fold_left_app. apply IH. Qed.
Lemma fold_left_map' {A B C} (f : A -> C -> A) (g : B -> C) l a :
  fold_left f (map g l) a = fold_left (fun acc x => f acc (g x)) l a.
Proof. revert a; induction l as [|b l IH]; intros a; simpl; auto. Qed.
Lemma fold_left_ext' {A B} (f g : A -> B -> A) l a : (forall x y, f x y = g x y) -> fold_left f l a = fold_left g l a.
Proof. intros H; revert a; induction l as [|b l IH]; intros a; simpl; auto. rewrite H. apply IH. Qed.

(* ---------- a fold of read-two / write-two steps over disjoint pairs (i, i+s) ---------- *)
Section Pairs.
  Variable A : Type.
  Variable d : A.
  Variables f0 f1 : A -> A -> A.
  Variable s : nat.
  Hypothesis s_pos : 0 < s.

  Definition gpair_step (st : list A) (i : nat) : list A :=
    let a0 := nth i st d in
    let a1 := nth (i + s) st d in
    upd (i + s) (f1 a0 a1) (upd i (f0 a0 a1) st).

  Lemma gpair_step_length st i : length (gpair_step st i) = length st.
  Proof. unfold gpair_step. now rewrite !upd_length. Qed.
  Lemma fold_gpair_length is st : length (fold_left gpair_step is st) = length st.
  Proof. revert st; induction is as [|i is IH]; intros st; simpl; auto. rewrite IH. apply gpair_step_length. Qed.

  Definition memb (k : nat) (l : list nat) : bool := existsb (Nat.eqb k) l.
  Lemma memb_In k l : memb k l = true <-> In k l.
  Proof. unfold memb. rewrite existsb_exists. split.
    - intros [x [Hx He]]. apply Nat.eqb_eq in He. now subst.
    - intros H. exists k. split; auto. apply Nat.eqb_refl. Qed.
  Lemma memb_app k l1 l2 : memb k (l1 ++ l2) = memb k l1 || memb k l2.
  Proof. unfold memb. apply existsb_app. Qed.

  Definition Disj (is : list nat) : Prop :=
    NoDup is /\ forall a b, In a is -> In b is -> a <> b + s.

  Definition pair_spec (is : list nat) (st : list A) (k : nat) : A :=
    if memb k is then f0 (nth k st d) (nth (k + s) st d)
    else if (s <=? k) && memb (k - s) is then f1 (nth (k - s) st d) (nth k st d)
    else nth k st d.

  Lemma Disj_app_inv is i : Disj (is ++ [i]) ->
    Disj is /\ ~ In i is /\ (forall b, In b is -> i <> b + s) /\ (forall b, In b is -> b <> i + s).
  Proof.
    intros [Hnd Hd]. repeat split.
    - apply NoDup_remove_1 in Hnd. now rewrite app_nil_r in Hnd.
    - intros a b Ha Hb. apply Hd; apply in_or_app; auto.
    - apply NoDup_remove_2 in Hnd. now rewrite app_nil_r in Hnd.
    - intros b Hb. apply Hd; apply in_or_app; simpl; auto.
    - intros b Hb. apply Hd; apply in_or_app; simpl; auto.
  Qed.

  Theorem fold_pair_spec is : forall st,
    Disj is -> (forall i, In i is -> i + s < length st) ->
    forall k, nth k (fold_left gpair_step is st) d = pair_spec is st k.
  Proof.
    induction is as [|i is IH] using rev_ind; intros st HD Hlen k.
    - unfold pair_spec. cbn. now rewrite andb_false_r.
    - apply Disj_app_inv in HD. destruct HD as (HD & Hni & Hab & Hba).
      rewrite fold_left_app. cbn [fold_left].
      assert (Hlen' : forall j, In j is -> j + s < length st)
        by (intros j Hj; apply Hlen; apply in_or_app; auto).
      specialize (IH st HD Hlen').
      set (st' := fold_left gpair_step is st) in *.
      assert (Hl' : length st' = length st) by apply fold_gpair_length.
      assert (Hi : i + s < length st) by (apply Hlen; apply in_or_app; simpl; auto).
      assert (Ri : nth i st' d = nth i st d).
      { rewrite IH. unfold pair_spec.
        destruct (memb i is) eqn:E1. { apply memb_In in E1. contradiction. }
        destruct (s <=? i) eqn:E2; cbn [andb]; auto.
        destruct (memb (i - s) is) eqn:E3; auto.
        apply memb_In in E3. apply Nat.leb_le in E2. exfalso. apply (Hab _ E3). lia. }
      assert (Ris : nth (i + s) st' d = nth (i + s) st d).
      { rewrite IH. unfold pair_spec.
        destruct (memb (i + s) is) eqn:E1. { apply memb_In in E1. exfalso. now apply (Hba _ E1). }
        assert (E2 : (s <=? i + s) = true) by (apply Nat.leb_le; lia). rewrite E2. cbn [andb].
        replace (i + s - s) with i by lia.
        destruct (memb i is) eqn:E3; auto. apply memb_In in E3. contradiction. }
      unfold gpair_step. rewrite Ri, Ris.
      unfold pair_spec. rewrite !memb_app. cbn [memb existsb]. rewrite !orb_false_r.
      destruct (Nat.eq_dec k (i + s)) as [->|Hk1].
      + rewrite nth_upd_eq by (rewrite upd_length; lia).
        assert (E1 : memb (i + s) is = false).
        { destruct (memb (i + s) is) eqn:E; auto. apply memb_In in E. exfalso. now apply (Hba _ E). }
        rewrite E1. assert (E0 : (i + s =? i) = false) by (apply Nat.eqb_neq; lia). rewrite E0. cbn [orb].
        assert (E2 : (s <=? i + s) = true) by (apply Nat.leb_le; lia). rewrite E2. cbn [andb].
        replace (i + s - s) with i by lia. rewrite Nat.eqb_refl, orb_true_r. reflexivity.
      + rewrite nth_upd_neq by lia.
        destruct (Nat.eq_dec k i) as [->|Hk2].
        * rewrite nth_upd_eq by lia. rewrite Nat.eqb_refl, orb_true_r. reflexivity.
        * rewrite nth_upd_neq by lia. rewrite IH. unfold pair_spec.
          assert (E0 : (k =? i) = false) by (apply Nat.eqb_neq; lia). rewrite E0, orb_false_r.
          destruct (memb k is); auto.
          destruct (s <=? k) eqn:E2; cbn [andb]; auto.
          apply Nat.leb_le in E2.
          assert (E3 : (k - s =? i) = false) by (apply Nat.eqb_neq; lia). rewrite E3, orb_false_r. reflexivity.
  Qed.
End Pairs.

(* ---------- enumeration of blocks: flat_map over blocks of a filtered inner list ---------- *)
Section Blocks.
  Variable w : nat.                  (* block width *)
  Hypothesis w_pos : 0 < w.
  Variable P : nat -> bool.          (* which offsets inside a block are visited *)

  Definition blocks (nb : nat) : list nat :=
    flat_map (fun b => map (fun j => b * w + j) (filter P (seq 0 w))) (seq 0 nb).

  Lemma filter_map_comm {X Y} (f : X -> Y) (Q : Y -> bool) l :
    filter Q (map f l) = map f (filter (fun x => Q (f x)) l).
  Proof. induction l as [|a l IH]; simpl; auto. destruct (Q (f a)); simpl; now rewrite IH. Qed.

  Lemma blocks_filter nb : blocks nb = filter (fun k => P (k mod w)) (seq 0 (nb * w)).
  Proof.
    induction nb as [|nb IH]; [reflexivity|].
    unfold blocks in *. rewrite seq_S, flat_map_app. cbn [flat_map]. rewrite app_nil_r, IH. cbn [plus].
    replace (S nb * w) with (nb * w + w) by lia.
    rewrite seq_app, filter_app. f_equal. cbn [plus].
    rewrite (seq_as_map (nb * w) w), filter_map_comm.
    f_equal. apply filter_ext_in. intros j Hj. apply in_seq in Hj.
    replace (nb * w + j) with (j + nb * w) by lia.
    rewrite Nat.mod_add by lia. rewrite Nat.mod_small by lia. reflexivity.
  Qed.

  Lemma In_blocks nb k : In k (blocks nb) <-> k < nb * w /\ P (k mod w) = true.
  Proof. rewrite blocks_filter, filter_In, in_seq. intuition lia. Qed.

  Lemma NoDup_blocks nb : NoDup (blocks nb).
  Proof. rewrite blocks_filter. apply NoDup_filter, seq_NoDup. Qed.
End Blocks.

(* ---------- bit q of k, arithmetically ---------- *)
Lemma pow2_pos q : 0 < 2 ^ q.
Proof. apply Nat.neq_0_lt_0, Nat.pow_nonzero. lia. Qed.

Lemma testbit_mod q k : Nat.testbit k q = negb (k mod (2 * 2 ^ q) <? 2 ^ q).
Proof.
  rewrite Nat.testbit_eqb.
  pose proof (pow2_pos q) as Hp.
  replace (2 * 2 ^ q) with (2 ^ q * 2) by lia.
  rewrite Nat.mod_mul_r by lia.
  assert (H2 : (k / 2 ^ q) mod 2 < 2) by (apply Nat.mod_upper_bound; lia).
  assert (Hm : k mod 2 ^ q < 2 ^ q) by (apply Nat.mod_upper_bound; lia).
  destruct (Nat.eqb_spec ((k / 2 ^ q) mod 2) 1) as [E|E].
  - rewrite E. symmetry. apply negb_true_iff, Nat.ltb_ge. lia.
  - assert (E0 : (k / 2 ^ q) mod 2 = 0) by lia. rewrite E0. symmetry. apply negb_false_iff, Nat.ltb_lt. lia.
Qed.

(* ---------- applySingleQubitGate ---------- *)
Section Apply1.
  Context {F : Type} (O : sops F).
  Notation C := (C (F:=F)).

  Definition f0m (m : mat (F:=F)) (a0 a1 : C) : C := cadd O (cmul O (m0 m) a0) (cmul O (m1 m) a1).
  Definition f1m (m : mat (F:=F)) (a0 a1 : C) : C := cadd O (cmul O (m2 m) a0) (cmul O (m3 m) a1).

  Lemma pair_step_generic m s st i :
    pair_step O m s st i = gpair_step C (c0 O) (f0m m) (f1m m) s st i.
  Proof. reflexivity. Qed.

  Lemma apply1_length q m st : length (apply1 O q m st) = length st.
  Proof.
    unfold apply1. cbv zeta.
    set (s := 2 ^ q).
    assert (H : forall l st0, length (fold_left (fun st b => fold_left (fun st j => pair_step O m s st (b * (2 * s) + j)) (seq 0 s) st) l st0) = length st0).
    { induction l as [|b l IH]; intros st0; cbn [fold_left]; auto. rewrite IH.
      generalize (seq 0 s). intros l2. revert st0. induction l2 as [|j l2 IH2]; intros st0; cbn [fold_left]; auto.
      rewrite IH2. unfold pair_step. now rewrite !upd_length. }
    apply H.
  Qed.

  Theorem apply1_embed n q m st :
    q < n -> length st = 2 ^ n ->
    forall k, k < 2 ^ n -> nth k (apply1 O q m st) (c0 O) = embed1 O q m st k.
  Proof.
    intros Hq Hlen k Hk. unfold apply1. cbv zeta.
    set (s := 2 ^ q). assert (s_pos : 0 < s) by apply pow2_pos.
    assert (Hdiv : 2 ^ n = 2 ^ (n - q - 1) * (2 * s)).
    { unfold s. replace (2 * 2 ^ q) with (2 ^ (S q)) by (cbn; lia). rewrite <- Nat.pow_add_r. f_equal. lia. }
    rewrite Hlen, Hdiv, Nat.div_mul by lia. set (nb := 2 ^ (n - q - 1)) in *.
    rewrite (fold_left_ext' _ (fun acc b => fold_left (gpair_step C (c0 O) (f0m m) (f1m m) s)
               (map (fun j => b * (2 * s) + j) (filter (fun j => j <? s) (seq 0 (2 * s)))) acc)).
    2:{ intros x y. rewrite fold_left_map'.
        assert (Hf : filter (fun j => j <? s) (seq 0 (2 * s)) = seq 0 s).
        { replace (2 * s) with (s + s) by lia. rewrite seq_app, filter_app, filter_all, filter_none.
          - apply app_nil_r.
          - intros j Hj. apply in_seq in Hj. apply Nat.ltb_ge. lia.
          - intros j Hj. apply in_seq in Hj. apply Nat.ltb_lt. lia. }
        rewrite Hf. reflexivity. }
    rewrite (fold_left_flat_map (gpair_step C (c0 O) (f0m m) (f1m m) s)
               (fun b => map (fun j => b * (2 * s) + j) (filter (fun j => j <? s) (seq 0 (2 * s))))).
    change (flat_map _ (seq 0 nb)) with (blocks (2 * s) (fun j => j <? s) nb).
    assert (W : 0 < 2 * s) by lia.
    assert (Hin : forall i, In i (blocks (2 * s) (fun j => j <? s) nb) <-> i < nb * (2 * s) /\ i mod (2 * s) < s).
    { intros i. rewrite (In_blocks (2 * s) W). rewrite Nat.ltb_lt. reflexivity. }
    rewrite (fold_pair_spec C (c0 O) (f0m m) (f1m m) s s_pos).
    - unfold pair_spec, embed1. rewrite testbit_mod. fold s.
      destruct (memb k (blocks (2 * s) (fun j => j <? s) nb)) eqn:E.
      + apply memb_In, Hin in E. destruct E as [_ E].
        apply Nat.ltb_lt in E. rewrite E. reflexivity.
      + assert (Hhi : ~ (k mod (2 * s) < s)).
        { intros H. assert (H0 : In k (blocks (2 * s) (fun j => j <? s) nb)) by (apply Hin; lia).
          apply memb_In in H0. congruence. }
        assert (Hb : (k mod (2 * s) <? s) = false) by (apply Nat.ltb_ge; lia). rewrite Hb. cbn [negb].
        assert (Hsk : s <= k). { destruct (Nat.le_gt_cases s k); auto. rewrite Nat.mod_small in Hhi by lia. lia. }
        apply Nat.leb_le in Hsk as Hsk'. rewrite Hsk'. cbn [andb].
        assert (H : In (k - s) (blocks (2 * s) (fun j => j <? s) nb)).
        { apply Hin. split; [lia|].
          assert (k mod (2*s) < 2 * s) by (apply Nat.mod_upper_bound; lia).
          assert (Hk' : k = (k - s) + s) by lia.
          rewrite Hk' in Hhi.
          rewrite Nat.add_mod in Hhi by lia. rewrite (Nat.mod_small s) in Hhi by lia.
          assert ((k - s) mod (2*s) < 2 * s) by (apply Nat.mod_upper_bound; lia).
          destruct (Nat.lt_ge_cases ((k - s) mod (2*s)) s); auto.
          exfalso. apply Hhi.
          set (r := (k - s) mod (2 * s)) in *. clearbody r.
          replace (r + s) with ((r - s) + 1 * (2 * s)) by lia.
          rewrite Nat.mod_add by lia. rewrite Nat.mod_small; lia. }
        apply memb_In in H. rewrite H. reflexivity.
    - split; [apply NoDup_blocks; exact W|].
      intros a b Ha Hb E. apply Hin in Ha, Hb. subst a.
      destruct Ha as [_ Ha]. destruct Hb as [_ Hb].
      rewrite Nat.add_mod in Ha by lia.
      rewrite (Nat.mod_small s) in Ha by lia.
      rewrite (Nat.mod_small (b mod (2*s) + s)) in Ha by lia. lia.
    - intros i Hi. apply Hin in Hi. destruct Hi as [Hi1 Hi2].
      rewrite Hlen, Hdiv.
      assert (i = 2 * s * (i / (2 * s)) + i mod (2 * s)) by (apply Nat.div_mod; lia).
      assert (i / (2 * s) < nb) by (apply Nat.div_lt_upper_bound; lia).
      nia.
  Qed.

  (* whole-vector form *)
  Corollary apply1_is_embed n q m st :
    q < n -> length st = 2 ^ n ->
    apply1 O q m st = map (embed1 O q m st) (seq 0 (2 ^ n)).
  Proof.
    intros Hq Hlen. apply (nth_ext_len _ _ (c0 O)).
    - rewrite apply1_length, map_length, seq_length. assumption.
    - intros k Hk. rewrite apply1_length, Hlen in Hk.
      rewrite (apply1_embed n) by assumption.
      rewrite (nth_indep _ (c0 O) (embed1 O q m st 0)) by (rewrite map_length, seq_length; assumption).
      rewrite map_nth. rewrite seq_nth by assumption. reflexivity.
  Qed.
End Apply1.

(* apply1 as one fold over the filtered enumeration (used for the norm invariant) *)
Section Apply1Fold.
  Context {F : Type} (O : sops F).
  Notation C := (C (F:=F)).
  Lemma apply1_as_fold n q m st :
    q < n -> length st = 2 ^ n ->
    apply1 O q m st =
    fold_left (gpair_step C (c0 O) (f0m O m) (f1m O m) (2 ^ q))
              (blocks (2 * 2 ^ q) (fun j => j <? 2 ^ q) (2 ^ (n - q - 1))) st
    /\ (forall i, In i (blocks (2 * 2 ^ q) (fun j => j <? 2 ^ q) (2 ^ (n - q - 1))) -> i + 2 ^ q < 2 ^ n).
  Proof.
    intros Hq Hlen. unfold apply1. cbv zeta.
    set (s := 2 ^ q). assert (s_pos : 0 < s) by apply pow2_pos.
    assert (Hdiv : 2 ^ n = 2 ^ (n - q - 1) * (2 * s)).
    { unfold s. replace (2 * 2 ^ q) with (2 ^ (S q)) by (cbn; lia). rewrite <- Nat.pow_add_r. f_equal. lia. }
    rewrite Hlen, Hdiv, Nat.div_mul by lia. set (nb := 2 ^ (n - q - 1)) in *.
    split.
    - rewrite (fold_left_ext' _ (fun acc b => fold_left (gpair_step C (c0 O) (f0m O m) (f1m O m) s)
               (map (fun j => b * (2 * s) + j) (filter (fun j => j <? s) (seq 0 (2 * s)))) acc)).
      2:{ intros x y. rewrite fold_left_map'.
          assert (Hf : filter (fun j => j <? s) (seq 0 (2 * s)) = seq 0 s).
          { replace (2 * s) with (s + s) by lia. rewrite seq_app, filter_app, filter_all, filter_none.
            - apply app_nil_r.
            - intros j Hj. apply in_seq in Hj. apply Nat.ltb_ge. lia.
            - intros j Hj. apply in_seq in Hj. apply Nat.ltb_lt. lia. }
          rewrite Hf. reflexivity. }
      rewrite (fold_left_flat_map (gpair_step C (c0 O) (f0m O m) (f1m O m) s)
               (fun b => map (fun j => b * (2 * s) + j) (filter (fun j => j <? s) (seq 0 (2 * s))))).
      reflexivity.
    - intros i Hi. assert (W : 0 < 2 * s) by lia. apply (In_blocks (2 * s) W) in Hi.
      destruct Hi as [Hi1 Hi2]. apply Nat.ltb_lt in Hi2.
      assert (i = 2 * s * (i / (2 * s)) + i mod (2 * s)) by (apply Nat.div_mod; lia).
      assert (i / (2 * s) < nb) by (apply Nat.div_lt_upper_bound; lia).
      nia.
  Qed.
End Apply1Fold.
