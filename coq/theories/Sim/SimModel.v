(* Executable model of src/bloch/runtime/qasm_simulator.cpp, generic in the scalar type.
   Definitions only (so the model still extracts when a proof breaks). *)
From Coq Require Import List Arith Bool PeanoNat.
From Bloch Require Import Common.ListUpd.
Import ListNotations.

Record sops (F : Type) := mkOps {
  s0 : F; s1 : F; s2 : F;
  sadd : F -> F -> F; ssub : F -> F -> F; smul : F -> F -> F; sdiv : F -> F -> F;
  sneg : F -> F; ssqrt : F -> F; scos : F -> F; ssin : F -> F;
  sltb : F -> F -> bool;
  sis0 : F -> bool            (* x == 0.0 *)
}.
Arguments s0 {F}. Arguments s1 {F}. Arguments s2 {F}. Arguments sadd {F}. Arguments ssub {F}.
Arguments smul {F}. Arguments sdiv {F}. Arguments sneg {F}. Arguments ssqrt {F}.
Arguments scos {F}. Arguments ssin {F}. Arguments sltb {F}. Arguments sis0 {F}.

Inductive gate1 (F : Type) := GH | GX | GY | GZ | GRx (t : F) | GRy (t : F) | GRz (t : F).
Arguments GH {F}. Arguments GX {F}. Arguments GY {F}. Arguments GZ {F}.
Arguments GRx {F}. Arguments GRy {F}. Arguments GRz {F}.

Inductive qop (F : Type) :=
| OGate (g : gate1 F) (q : nat)
| OCx (c t : nat)
| OReset (q : nat)
| OMeasure (q : nat).
Arguments OGate {F}. Arguments OCx {F}. Arguments OReset {F}. Arguments OMeasure {F}.

Inductive simerr := ErrRange | ErrMeasured.

Section Sim.
  Context {F : Type} (O : sops F).
  Definition C : Type := (F * F)%type.
  Definition c0 : C := (s0 O, s0 O).
  Definition cre (x : F) : C := (x, s0 O).
  Definition cadd (a b : C) : C := (sadd O (fst a) (fst b), sadd O (snd a) (snd b)).
  Definition cmul (a b : C) : C :=
    (ssub O (smul O (fst a) (fst b)) (smul O (snd a) (snd b)),
     sadd O (smul O (fst a) (snd b)) (smul O (snd a) (fst b))).
  Definition cnorm2 (a : C) : F := sadd O (smul O (fst a) (fst a)) (smul O (snd a) (snd a)).
  Definition cdivr (a : C) (r : F) : C := (sdiv O (fst a) r, sdiv O (snd a) r).

  (* row-major 2x2: m0 m1 / m2 m3, as std::array<complex,4> *)
  Definition mat : Type := (C * C * C * C)%type.
  Definition m0 (m : mat) := fst (fst (fst m)).
  Definition m1 (m : mat) := snd (fst (fst m)).
  Definition m2 (m : mat) := snd (fst m).
  Definition m3 (m : mat) := snd m.

  Definition half (t : F) : F := sdiv O t (s2 O).
  Definition isq2 : F := sdiv O (s1 O) (ssqrt O (s2 O)).          (* 1 / std::sqrt(2.0) *)

  Definition gate_matrix (g : gate1 F) : mat :=
    match g with
    | GH => (cre isq2, cre isq2, cre isq2, cre (sneg O isq2))
    | GX => (c0, cre (s1 O), cre (s1 O), c0)
    | GY => (c0, (s0 O, sneg O (s1 O)), (s0 O, s1 O), c0)
    | GZ => (cre (s1 O), c0, c0, cre (sneg O (s1 O)))
    | GRx t => let ct := scos O (half t) in let st := ssin O (half t) in
               (cre ct, (s0 O, sneg O st), (s0 O, sneg O st), cre ct)
    | GRy t => let ct := scos O (half t) in let st := ssin O (half t) in
               (cre ct, cre (sneg O st), cre st, cre ct)
    | GRz t => (* std::exp(complex(0, -t/2)), std::exp(complex(0, t/2)) *)
               let a := sdiv O (sneg O t) (s2 O) in let b := half t in
               ((scos O a, ssin O a), c0, c0, (scos O b, ssin O b))
    end.

  (* ---- applySingleQubitGate: the blocked in-place pair loop ---- *)
  Definition pair_step (m : mat) (s : nat) (st : list C) (i : nat) : list C :=
    let a0 := nth i st c0 in
    let a1 := nth (i + s) st c0 in
    upd (i + s) (cadd (cmul (m2 m) a0) (cmul (m3 m) a1))
        (upd i (cadd (cmul (m0 m) a0) (cmul (m1 m) a1)) st).

  Definition apply1 (q : nat) (m : mat) (st : list C) : list C :=
    let s := 2 ^ q in
    fold_left (fun st b => fold_left (fun st j => pair_step m s st (b * (2 * s) + j)) (seq 0 s) st)
              (seq 0 (length st / (2 * s))) st.

  (* ---- cx: the block / between / lowOffset triple loop with in-place swaps ---- *)
  Definition swap_step (st : list C) (i0 i1 : nat) : list C :=
    let a0 := nth i0 st c0 in
    let a1 := nth i1 st c0 in
    upd i1 a0 (upd i0 a1 st).

  Definition cx_idx (c t : nat) (b between lowOffset : nat) : nat * nat :=
    let low := Nat.min c t in let high := Nat.max c t in
    let lowBit := 2 ^ low in let highBit := 2 ^ high in
    let blockSize := 2 ^ (high + 1) in
    let controlIsLow := c =? low in
    let block := b * blockSize in
    let mid := Nat.shiftl between (low + 1) in
    let base := Nat.lor (Nat.lor block mid) lowOffset in
    let idx0 := if controlIsLow then Nat.lor base lowBit else Nat.lor base highBit in
    let idx1 := if controlIsLow then Nat.lor idx0 highBit else Nat.lor idx0 lowBit in
    (idx0, idx1).

  Definition cx_model (c t : nat) (st : list C) : list C :=
    let low := Nat.min c t in let high := Nat.max c t in
    let blockSize := 2 ^ (high + 1) in
    let betweenSpan := if low + 1 <? high then 2 ^ (high - low - 1) else 1 in
    fold_left (fun st b =>
      fold_left (fun st between =>
        fold_left (fun st lowOffset =>
          let '(i0, i1) := cx_idx c t b between lowOffset in swap_step st i0 i1)
          (seq 0 (2 ^ low)) st)
        (seq 0 betweenSpan) st)
      (seq 0 (length st / blockSize)) st.

  (* ---- measurement / reset ---- *)
  Definition indexed (st : list C) : list (nat * C) := combine (seq 0 (length st)) st.

  Definition prob1 (q : nat) (st : list C) : F :=
    fold_left (fun acc ka => if Nat.testbit (fst ka) q then sadd O acc (cnorm2 (snd ka)) else acc)
              (indexed st) (s0 O).

  Definition prob0 (q : nat) (st : list C) : F :=
    fold_left (fun acc ka => if Nat.testbit (fst ka) q then acc else sadd O acc (cnorm2 (snd ka)))
              (indexed st) (s0 O).

  (* the sampled branch, never one without amplitude; its weight *)
  Definition pick_branch (r p0 p1 : F) : bool :=
    let b := sltb O r p1 in if sis0 O (if b then p1 else p0) then negb b else b.

  Definition collapse (q : nat) (res : bool) (nrm : F) (st : list C) : list C :=
    map (fun ka => if Bool.eqb (Nat.testbit (fst ka) q) res then cdivr (snd ka) nrm else c0) (indexed st).

  Definition measure_state (q : nat) (r : F) (st : list C) : bool * list C :=
    let p1 := prob1 q st in
    let p0 := prob0 q st in
    let res := pick_branch r p0 p1 in
    let nrm := ssqrt O (if res then p1 else p0) in
    (res, collapse q res nrm st).

  (* repaired reset: sample the branch, keep it normalised, move it to bit q = 0 *)
  Definition reset_state (q : nat) (r : F) (st : list C) : bool * list C :=
    let p1 := prob1 q st in
    let p0 := prob0 q st in
    let one := pick_branch r p0 p1 in
    let nrm := ssqrt O (if one then p1 else p0) in
    (one, map (fun ka => if Nat.testbit (fst ka) q then c0
                         else cdivr (if one then nth (fst ka + 2 ^ q) st c0 else snd ka) nrm) (indexed st)).

  Definition alloc_state (st : list C) : list C := st ++ repeat c0 (length st).

  (* ---- the simulator object ---- *)
  Record sim := mkSim { nq : nat; amps : list C; meas : list bool; qlog : list (qop F) }.
  Definition sim_init : sim := {| nq := 0; amps := [cre (s1 O)]; meas := []; qlog := [] |}.

  Definition ensure_active (s : sim) (q : nat) : option simerr :=
    if nq s <=? q then Some ErrRange
    else if nth q (meas s) false then Some ErrMeasured else None.

  Definition set_flag (q : nat) (b : bool) (l : list bool) : list bool :=
    if q <? length l then upd q b l else l.

  Definition sim_alloc (s : sim) : sim * nat :=
    let idx := nq s in
    ({| nq := S idx; amps := alloc_state (amps s);
        meas := if length (meas s) <=? idx then meas s ++ repeat false (S idx - length (meas s))
                else upd idx false (meas s);
        qlog := qlog s |}, idx).

  Definition sim_gate (s : sim) (g : gate1 F) (q : nat) : sim + simerr :=
    match ensure_active s q with
    | Some e => inr e
    | None => inl {| nq := nq s; amps := apply1 q (gate_matrix g) (amps s); meas := meas s;
                     qlog := qlog s ++ [OGate g q] |}
    end.

  Definition sim_cx (s : sim) (c t : nat) : sim + simerr :=
    match ensure_active s c with
    | Some e => inr e
    | None =>
      match ensure_active s t with
      | Some e => inr e
      | None => inl {| nq := nq s; amps := cx_model c t (amps s); meas := meas s;
                       qlog := qlog s ++ [OCx c t] |}
      end
    end.

  Definition sim_reset (s : sim) (q : nat) (r : F) : (sim * bool) + simerr :=
    if nq s <=? q then inr ErrRange else
    let (one, st') := reset_state q r (amps s) in
    inl ({| nq := nq s; amps := st'; meas := set_flag q false (meas s); qlog := qlog s ++ [OReset q] |}, one).

  Definition sim_measure (s : sim) (q : nat) (r : F) : (sim * bool) + simerr :=
    match ensure_active s q with
    | Some e => inr e
    | None =>
      let (res, st') := measure_state q r (amps s) in
      inl ({| nq := nq s; amps := st'; meas := set_flag q true (meas s); qlog := qlog s ++ [OMeasure q] |}, res)
    end.

  (* a scripted run: ops with the draws consumed by measure/reset, allocation interleaved *)
  Inductive sop := SAlloc | SOp (o : qop F) (r : F).

  Definition sim_step (s : sim) (o : sop) : sim * option simerr * option bool :=
    match o with
    | SAlloc => (fst (sim_alloc s), None, None)
    | SOp (OGate g q) _ => match sim_gate s g q with inl s' => (s', None, None) | inr e => (s, Some e, None) end
    | SOp (OCx c t) _ => match sim_cx s c t with inl s' => (s', None, None) | inr e => (s, Some e, None) end
    | SOp (OReset q) r => match sim_reset s q r with inl (s', b) => (s', None, Some b) | inr e => (s, Some e, None) end
    | SOp (OMeasure q) r => match sim_measure s q r with inl (s', b) => (s', None, Some b) | inr e => (s, Some e, None) end
    end.

  Fixpoint sim_run (s : sim) (os : list sop) : sim * list (option simerr * option bool) :=
    match os with
    | [] => (s, [])
    | o :: r => let '(s1, e, b) := sim_step s o in
                let (s2, tr) := sim_run s1 r in (s2, (e, b) :: tr)
    end.

  (* ---- specifications (what the loops are supposed to compute) ---- *)
  Definition embed1 (q : nat) (m : mat) (st : list C) (k : nat) : C :=
    if Nat.testbit k q
    then cadd (cmul (m2 m) (nth (k - 2 ^ q) st c0)) (cmul (m3 m) (nth k st c0))
    else cadd (cmul (m0 m) (nth k st c0)) (cmul (m1 m) (nth (k + 2 ^ q) st c0)).

  Definition cx_spec (c t : nat) (st : list C) (k : nat) : C :=
    if Nat.testbit k c
    then nth (if Nat.testbit k t then k - 2 ^ t else k + 2 ^ t) st c0
    else nth k st c0.
End Sim.
