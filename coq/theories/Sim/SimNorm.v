(* Norm, Born rule, collapse and reset over S := R. *)
From Coq Require Import Reals Lra Lia List Arith Bool PeanoNat Permutation FinFun.
From Bloch Require Import Common.ListUpd Sim.SimModel Sim.SimLoops Sim.CxLoops Sim.SimReal.
Import ListNotations.
Local Open Scope R_scope.

(* ---------- indexed sums ---------- *)
Fixpoint isum (f : nat -> RC -> R) (off : nat) (st : list RC) : R :=
  match st with [] => 0 | a :: r => f off a + isum f (S off) r end.

Definition norm2 (st : list RC) : R := isum (fun _ a => cn2 a) 0 st.
Definition w1f (q : nat) : nat -> RC -> R := fun k a => if Nat.testbit k q then cn2 a else 0.
Definition w0f (q : nat) : nat -> RC -> R := fun k a => if Nat.testbit k q then 0 else cn2 a.

Lemma isum_ext f g off st :
  (forall j, (j < length st)%nat -> f (off + j)%nat (nth j st (c0 Rops)) = g (off + j)%nat (nth j st (c0 Rops))) ->
  isum f off st = isum g off st.
Proof.
  revert off. induction st as [|a r IH]; intros off H; cbn [isum]; [reflexivity|].
  f_equal.
  - specialize (H 0%nat). cbn in H. rewrite Nat.add_0_r in H. apply H. lia.
  - apply IH. intros j Hj. specialize (H (S j)). cbn [nth length] in H.
    replace (S off + j)%nat with (off + S j)%nat by lia. apply H. lia.
Qed.

Lemma isum_plus f g off st : isum (fun k a => f k a + g k a) off st = isum f off st + isum g off st.
Proof. revert off. induction st as [|a r IH]; intros off; cbn [isum]; [lra|]. rewrite IH. lra. Qed.

Lemma isum_scal c f off st : isum (fun k a => c * f k a) off st = c * isum f off st.
Proof. revert off. induction st as [|a r IH]; intros off; cbn [isum]; [lra|]. rewrite IH. lra. Qed.

Lemma isum_nonneg f off st : (forall k a, 0 <= f k a) -> 0 <= isum f off st.
Proof. intros H. revert off. induction st as [|a r IH]; intros off; cbn [isum]; [lra|]. specialize (H off a). specialize (IH (S off)). lra. Qed.

Lemma isum_zero f off st : (forall k a, f k a = 0) -> isum f off st = 0.
Proof. intros H. revert off. induction st as [|a r IH]; intros off; cbn [isum]; [lra|]. rewrite H, IH. lra. Qed.

Lemma cn2_nonneg a : 0 <= cn2 a.
Proof. unfold cn2, cnorm2. cbn. nra. Qed.

Lemma cn2_c0 : cn2 (c0 Rops) = 0.
Proof. unfold cn2, cnorm2, c0. cbn. lra. Qed.

Lemma cn2_divr a r : r <> 0 -> cn2 (cdivr Rops a r) = cn2 a / (r * r).
Proof. intros Hr. unfold cn2, cnorm2, cdivr. cbn. field. assumption. Qed.

Lemma norm2_split q st : norm2 st = isum (w1f q) 0 st + isum (w0f q) 0 st.
Proof.
  unfold norm2. rewrite <- isum_plus. apply isum_ext. intros j _. unfold w1f, w0f.
  destruct (Nat.testbit (0 + j) q); lra.
Qed.

(* fold_left with an accumulator over the indexed list is the indexed sum *)
Lemma fold_indexed_isum (g : nat -> RC -> R) st : forall off acc,
  fold_left (fun acc (ka : nat * RC) => acc + g (fst ka) (snd ka)) (combine (seq off (length st)) st) acc
  = acc + isum g off st.
Proof.
  induction st as [|a r IH]; intros off acc; cbn [length seq combine fold_left isum]; [lra|].
  rewrite IH. cbn [fst snd]. lra.
Qed.

Lemma prob1_isum q st : prob1 Rops q st = isum (w1f q) 0 st.
Proof.
  unfold prob1, indexed.
  rewrite (fold_left_ext' _ (fun acc (ka : nat * RC) => acc + w1f q (fst ka) (snd ka))).
  - rewrite fold_indexed_isum. cbn [s0 Rops]. lra.
  - intros acc [k a]. unfold w1f. cbn [fst snd sadd Rops]. destruct (Nat.testbit k q); [reflexivity|lra].
Qed.

Lemma prob0_isum q st : prob0 Rops q st = isum (w0f q) 0 st.
Proof.
  unfold prob0, indexed.
  rewrite (fold_left_ext' _ (fun acc (ka : nat * RC) => acc + w0f q (fst ka) (snd ka))).
  - rewrite fold_indexed_isum. cbn [s0 Rops]. lra.
  - intros acc [k a]. unfold w0f. cbn [fst snd sadd Rops]. destruct (Nat.testbit k q); [lra|reflexivity].
Qed.

Lemma prob0_eq q st : norm2 st = 1 -> prob0 Rops q st = 1 - prob1 Rops q st.
Proof. intros Hn. rewrite prob0_isum, prob1_isum. rewrite (norm2_split q) in Hn. lra. Qed.

(* map over the indexed list *)
Fixpoint imap (f : nat -> RC -> RC) (off : nat) (st : list RC) : list RC :=
  match st with [] => [] | a :: r => f off a :: imap f (S off) r end.

Lemma map_indexed_imap (f : nat -> RC -> RC) st : forall off,
  map (fun ka : nat * RC => f (fst ka) (snd ka)) (combine (seq off (length st)) st) = imap f off st.
Proof. induction st as [|a r IH]; intros off; cbn [length seq combine map imap]; [reflexivity|]. rewrite IH. reflexivity. Qed.

Lemma isum_imap g f off st : isum g off (imap f off st) = isum (fun k a => g k (f k a)) off st.
Proof. revert off. induction st as [|a r IH]; intros off; cbn [imap isum]; [reflexivity|]. rewrite IH. reflexivity. Qed.

Lemma imap_length f off st : length (imap f off st) = length st.
Proof. revert off. induction st as [|a r IH]; intros off; cbn; [reflexivity|]. rewrite IH. reflexivity. Qed.

Lemma nth_imap f off st j : (j < length st)%nat -> nth j (imap f off st) (c0 Rops) = f (off + j)%nat (nth j st (c0 Rops)).
Proof.
  revert off j. induction st as [|a r IH]; intros off j Hj; cbn [length] in Hj; [lia|].
  destruct j as [|j]; cbn [imap nth]; [rewrite Nat.add_0_r; reflexivity|].
  rewrite IH by lia. f_equal. lia.
Qed.

(* ---------- measurement ---------- *)
Definition collapsef (q : nat) (res : bool) (nrm : R) : nat -> RC -> RC :=
  fun k a => if Bool.eqb (Nat.testbit k q) res then cdivr Rops a nrm else c0 Rops.

Lemma collapse_imap q res nrm st : collapse Rops q res nrm st = imap (collapsef q res nrm) 0 st.
Proof. unfold collapse, indexed. apply (map_indexed_imap (collapsef q res nrm)). Qed.

Definition p_branch (q : nat) (res : bool) (st : list RC) : R :=
  if res then prob1 Rops q st else 1 - prob1 Rops q st.
Definition wbranch (q : nat) (res : bool) (st : list RC) : R :=
  if res then prob1 Rops q st else prob0 Rops q st.

Lemma wbranch_eq q res st : norm2 st = 1 -> wbranch q res st = p_branch q res st.
Proof. intros Hn. unfold wbranch, p_branch. destruct res; [reflexivity|apply prob0_eq; assumption]. Qed.

Lemma sltb_iff a b : sltb Rops a b = true <-> a < b.
Proof. cbn. destruct (Rlt_dec a b); split; intros; try discriminate; auto; contradiction. Qed.

Lemma prob1_range q st : norm2 st = 1 -> 0 <= prob1 Rops q st <= 1.
Proof.
  intros Hn. rewrite prob1_isum. rewrite (norm2_split q) in Hn.
  assert (0 <= isum (w1f q) 0 st) by (apply isum_nonneg; intros k a; unfold w1f; destruct (Nat.testbit k q); [apply cn2_nonneg|lra]).
  assert (0 <= isum (w0f q) 0 st) by (apply isum_nonneg; intros k a; unfold w0f; destruct (Nat.testbit k q); [lra|apply cn2_nonneg]).
  lra.
Qed.

(* on a unit vector the guard against an empty branch never fires: the branch is r < p1 *)
Lemma pick_eq q r st : norm2 st = 1 -> 0 <= r < 1 ->
  pick_branch Rops r (prob0 Rops q st) (prob1 Rops q st) = sltb Rops r (prob1 Rops q st).
Proof.
  intros Hn Hr. unfold pick_branch. rewrite (prob0_eq q st Hn).
  destruct (sltb Rops r (prob1 Rops q st)) eqn:E.
  - apply sltb_iff in E. cbn [sis0 Rops]. destruct (Req_EM_T (prob1 Rops q st) 0); [lra|reflexivity].
  - assert (~ r < prob1 Rops q st) by (intros H; apply sltb_iff in H; congruence).
    cbn [sis0 Rops]. destruct (Req_EM_T (1 - prob1 Rops q st) 0); [lra|reflexivity].
Qed.

Lemma measure_outcome_iff q r st : norm2 st = 1 -> 0 <= r < 1 ->
  (fst (measure_state Rops q r st) = true <-> r < prob1 Rops q st).
Proof. intros Hn Hr. unfold measure_state. cbn [fst]. rewrite pick_eq by assumption. apply sltb_iff. Qed.

Lemma measure_branch_pos q r st :
  norm2 st = 1 -> 0 <= r < 1 ->
  0 < p_branch q (fst (measure_state Rops q r st)) st.
Proof.
  intros Hn Hr. unfold p_branch. destruct (fst (measure_state Rops q r st)) eqn:E.
  - apply measure_outcome_iff in E; auto. lra.
  - assert (~ r < prob1 Rops q st) by (intros H; apply measure_outcome_iff in H; auto; congruence). lra.
Qed.

Lemma measure_post_raw q r st :
  let res := fst (measure_state Rops q r st) in
  snd (measure_state Rops q r st) = imap (collapsef q res (sqrt (wbranch q res st))) 0 st.
Proof. cbv zeta. unfold measure_state. cbn [fst snd]. rewrite collapse_imap. reflexivity. Qed.

Lemma measure_post_eq q r st : norm2 st = 1 ->
  let res := fst (measure_state Rops q r st) in
  snd (measure_state Rops q r st) = imap (collapsef q res (sqrt (p_branch q res st))) 0 st.
Proof. intros Hn. cbv zeta. rewrite measure_post_raw. cbv zeta. rewrite wbranch_eq by assumption. reflexivity. Qed.

Lemma pb_weight q res st : norm2 st = 1 ->
  isum (fun k a => if Bool.eqb (Nat.testbit k q) res then cn2 a else 0) 0 st = p_branch q res st.
Proof.
  intros Hn. unfold p_branch. rewrite prob1_isum. destruct res.
  - apply isum_ext. intros j _. unfold w1f. destruct (Nat.testbit (0 + j) q); reflexivity.
  - rewrite (norm2_split q) in Hn.
    replace (1 - isum (w1f q) 0 st) with (isum (w0f q) 0 st) by lra.
    apply isum_ext. intros j _. unfold w0f. destruct (Nat.testbit (0 + j) q); reflexivity.
Qed.

Lemma collapse_norm q res p st : norm2 st = 1 -> 0 < p -> p = p_branch q res st ->
  norm2 (imap (collapsef q res (sqrt p)) 0 st) = 1.
Proof.
  intros Hn Hp Ep. unfold norm2. rewrite isum_imap.
  assert (Hs : sqrt p <> 0) by (intros E; apply sqrt_eq_0 in E; lra).
  assert (Hss : sqrt p * sqrt p = p) by (apply sqrt_sqrt; lra).
  rewrite (isum_ext _ (fun k a => / p * (if Bool.eqb (Nat.testbit k q) res then cn2 a else 0))).
  - rewrite isum_scal, (pb_weight q res st Hn), <- Ep. field. lra.
  - intros j _. unfold collapsef. destruct (Bool.eqb (Nat.testbit (0 + j) q) res).
    + rewrite cn2_divr by assumption. rewrite Hss. unfold Rdiv. lra.
    + rewrite cn2_c0. lra.
Qed.

Theorem measure_norm q r st : norm2 st = 1 -> 0 <= r < 1 -> norm2 (snd (measure_state Rops q r st)) = 1.
Proof.
  intros Hn Hr. rewrite measure_post_eq by assumption. apply collapse_norm; auto. apply measure_branch_pos; assumption.
Qed.

(* an immediate re-read gives the same value, with certainty *)
Theorem measure_repeat q r st : norm2 st = 1 -> 0 <= r < 1 ->
  prob1 Rops q (snd (measure_state Rops q r st)) = if fst (measure_state Rops q r st) then 1 else 0.
Proof.
  intros Hn Hr. pose proof (measure_norm q r st Hn Hr) as HN. revert HN. rewrite measure_post_eq by assumption.
  set (res := fst (measure_state Rops q r st)). set (p := p_branch q res st). intros HN.
  rewrite prob1_isum. destruct res.
  - rewrite (norm2_split q) in HN.
    assert (Z : isum (w0f q) 0 (imap (collapsef q true (sqrt p)) 0 st) = 0).
    { rewrite isum_imap. rewrite (isum_ext _ (fun _ _ => 0)); [apply isum_zero; reflexivity|].
      intros j _. unfold w0f, collapsef. destruct (Nat.testbit (0 + j) q); cbn; [reflexivity|apply cn2_c0]. }
    lra.
  - rewrite isum_imap. rewrite (isum_ext _ (fun _ _ => 0)); [apply isum_zero; reflexivity|].
    intros j _. unfold w1f, collapsef. destruct (Nat.testbit (0 + j) q); cbn; [apply cn2_c0|reflexivity].
Qed.

(* a qubit perfectly correlated with the measured one is fixed to the same value *)
Theorem measure_correlated q q' r st : norm2 st = 1 -> 0 <= r < 1 ->
  (forall k, (k < length st)%nat -> nth k st (c0 Rops) <> c0 Rops -> Nat.testbit k q' = Nat.testbit k q) ->
  prob1 Rops q' (snd (measure_state Rops q r st)) = if fst (measure_state Rops q r st) then 1 else 0.
Proof.
  intros Hn Hr Hc. rewrite <- (measure_repeat q r st Hn Hr).
  rewrite !prob1_isum, measure_post_eq, !isum_imap by assumption.
  apply isum_ext. intros j Hj. unfold w1f, collapsef. cbn [plus].
  destruct (Bool.eqb (Nat.testbit j q) (fst (measure_state Rops q r st))); [|rewrite cn2_c0; destruct (Nat.testbit j q'), (Nat.testbit j q); reflexivity].
  destruct (Req_dec (fst (nth j st (c0 Rops))) 0) as [E1|E1], (Req_dec (snd (nth j st (c0 Rops))) 0) as [E2|E2].
  - assert (Z : cn2 (cdivr Rops (nth j st (c0 Rops)) (sqrt (p_branch q (fst (measure_state Rops q r st)) st))) = 0).
    { unfold cn2, cnorm2, cdivr. cbn. rewrite E1, E2. unfold Rdiv. lra. }
    rewrite Z. destruct (Nat.testbit j q'), (Nat.testbit j q); reflexivity.
  - rewrite Hc; auto. intros E. rewrite E in E2. cbn in E2. lra.
  - rewrite Hc; auto. intros E. rewrite E in E1. cbn in E1. lra.
  - rewrite Hc; auto. intros E. rewrite E in E1. cbn in E1. lra.
Qed.

(* ---------- norm preservation by the unitary loops ---------- *)
Lemma isum_app f off l1 l2 : isum f off (l1 ++ l2) = isum f off l1 + isum f (off + length l1) l2.
Proof.
  revert off. induction l1 as [|a l1 IH]; intros off; cbn [app isum length].
  - rewrite Nat.add_0_r. lra.
  - rewrite IH. replace (S off + length l1)%nat with (off + S (length l1))%nat by lia. lra.
Qed.

Lemma norm2_upd_gen off i x st : (i < length st)%nat ->
  isum (fun _ a => cn2 a) off (upd i x st) = isum (fun _ a => cn2 a) off st - cn2 (nth i st (c0 Rops)) + cn2 x.
Proof.
  revert off i. induction st as [|a r IH]; intros off i Hi; cbn [length] in Hi; [lia|].
  destruct i as [|i]; cbn [upd isum nth]; [lra|]. rewrite IH by lia. lra.
Qed.
Lemma norm2_upd i x st : (i < length st)%nat -> norm2 (upd i x st) = norm2 st - cn2 (nth i st (c0 Rops)) + cn2 x.
Proof. apply norm2_upd_gen. Qed.

Lemma unitary_pair m a0 a1 : unitary2 m ->
  cn2 (cadd Rops (cmul Rops (m0 m) a0) (cmul Rops (m1 m) a1)) + cn2 (cadd Rops (cmul Rops (m2 m) a0) (cmul Rops (m3 m) a1))
  = cn2 a0 + cn2 a1.
Proof.
  intros (U1 & U2 & Zr & Zi). unfold cn2, cnorm2, cadd, cmul in *.
  destruct m as [[[[p0 q0] [p1 q1]] [p2 q2]] [p3 q3]]. destruct a0 as [x0 y0]. destruct a1 as [x1 y1].
  unfold m0, m1, m2, m3 in *. cbn [fst snd Rops sadd ssub smul] in *.
  transitivity ((p0 * p0 + q0 * q0 + (p2 * p2 + q2 * q2)) * (x0 * x0 + y0 * y0)
                + (p1 * p1 + q1 * q1 + (p3 * p3 + q3 * q3)) * (x1 * x1 + y1 * y1)
                + 2 * ((x0 * x1 + y0 * y1) * (p0 * p1 + q0 * q1 + p2 * p3 + q2 * q3)
                       - (x0 * y1 - y0 * x1) * (p0 * q1 - q0 * p1 + p2 * q3 - q2 * p3))).
  - ring.
  - rewrite U1, U2, Zr, Zi. ring.
Qed.

Lemma gpair_norm m s st i : unitary2 m -> (0 < s)%nat -> (i + s < length st)%nat ->
  norm2 (gpair_step RC (c0 Rops) (f0m Rops m) (f1m Rops m) s st i) = norm2 st.
Proof.
  intros Hu Hs Hi. unfold gpair_step. rewrite norm2_upd by (rewrite upd_length; lia).
  rewrite nth_upd_neq by lia. rewrite norm2_upd by lia.
  pose proof (unitary_pair m (nth i st (c0 Rops)) (nth (i + s) st (c0 Rops)) Hu) as H.
  unfold f0m, f1m. lra.
Qed.

Lemma fold_gpair_norm m s is : forall st, unitary2 m -> (0 < s)%nat ->
  (forall i, In i is -> (i + s < length st)%nat) ->
  norm2 (fold_left (gpair_step RC (c0 Rops) (f0m Rops m) (f1m Rops m) s) is st) = norm2 st.
Proof.
  induction is as [|i is IH]; intros st Hu Hs Hr; cbn [fold_left]; [reflexivity|].
  rewrite IH; auto.
  - apply gpair_norm; auto. apply Hr. left. reflexivity.
  - intros j Hj. rewrite gpair_step_length. apply Hr. right. assumption.
Qed.

Theorem apply1_norm n q g st : (q < n)%nat -> length st = (2 ^ n)%nat ->
  norm2 (apply1 Rops q (gate_matrix Rops g) st) = norm2 st.
Proof.
  intros Hq Hl. destruct (apply1_as_fold Rops n q (gate_matrix Rops g) st Hq Hl) as [E R]. rewrite E.
  apply fold_gpair_norm; [apply gates_unitary|apply pow2_pos|]. intros i Hi. rewrite Hl. apply R. assumption.
Qed.

Lemma swap_norm s st i : (0 < s)%nat -> (i + s < length st)%nat ->
  norm2 (gpair_step RC (c0 Rops) (sw0 (F:=R)) (sw1 (F:=R)) s st i) = norm2 st.
Proof.
  intros Hs Hi. unfold gpair_step, sw0, sw1. rewrite norm2_upd by (rewrite upd_length; lia).
  rewrite nth_upd_neq by lia. rewrite norm2_upd by lia. lra.
Qed.

Theorem cx_norm n c t st : (c < n)%nat -> (t < n)%nat -> c <> t -> length st = (2 ^ n)%nat ->
  norm2 (cx_model Rops c t st) = norm2 st.
Proof.
  intros Hc Ht Hne Hl. rewrite (cx_model_fold Rops n) by assumption.
  set (l := Nat.min c t). set (h := Nat.max c t).
  assert (Hlh : (l < h)%nat) by (unfold l, h; lia). assert (Hh : (h < n)%nat) by (unfold h; lia).
  generalize (In_cxl l h Hlh (c <? t)%nat (t <? c)%nat n).
  generalize (cxl l h (c <? t)%nat (t <? c)%nat (2 ^ (n - h - 1))). intros L HL.
  assert (HR : forall i, In i L -> (i + 2 ^ t < length st)%nat).
  { intros i Hi. apply HL in Hi; [|assumption]. destruct Hi as (Hi & Bh & Bl). rewrite Hl.
    apply bit_clear_add_lt; auto.
    destruct (Nat.lt_ge_cases c t) as [Hct|Hct].
    - assert (E : h = t) by (unfold h; lia). rewrite E in Bh. rewrite Bh. apply Nat.ltb_ge. lia.
    - assert (E : l = t) by (unfold l; lia). rewrite E in Bl. rewrite Bl. apply Nat.ltb_ge. lia. }
  clear HL. revert st Hl HR. induction L as [|i L IH]; intros st Hl HR; cbn [fold_left]; [reflexivity|].
  rewrite IH.
  - apply swap_norm; [apply pow2_pos|]. apply HR. left. reflexivity.
  - rewrite gpair_step_length. assumption.
  - intros j Hj. rewrite gpair_step_length. apply HR. right. assumption.
Qed.

(* ---------- allocation ---------- *)
Lemma isum_repeat_c0 off k : isum (fun _ a => cn2 a) off (repeat (c0 Rops) k) = 0.
Proof. revert off. induction k as [|k IH]; intros off; cbn [repeat isum]; [reflexivity|]. rewrite IH, cn2_c0. lra. Qed.

Theorem alloc_norm st : norm2 (alloc_state Rops st) = norm2 st.
Proof. unfold alloc_state, norm2. rewrite isum_app, isum_repeat_c0. lra. Qed.

Theorem alloc_keeps_state st k : (k < length st)%nat ->
  nth k (alloc_state Rops st) (c0 Rops) = nth k st (c0 Rops) /\
  nth (k + length st) (alloc_state Rops st) (c0 Rops) = c0 Rops.
Proof.
  intros Hk. unfold alloc_state. split.
  - apply app_nth1. assumption.
  - rewrite app_nth2 by lia. replace (k + length st - length st)%nat with k by lia. apply nth_repeat.
Qed.

(* ---------- reset: sample the branch, move it to |0> ---------- *)
Definition rsum (l : list R) : R := fold_right Rplus 0 l.

Lemma isum_as_rsum f st : forall off,
  isum f off st = rsum (map (fun j => f (off + j)%nat (nth j st (c0 Rops))) (seq 0 (length st))).
Proof.
  induction st as [|a r IH]; intros off; cbn [isum length]; [reflexivity|].
  rewrite IH. cbn [seq map rsum fold_right nth]. rewrite Nat.add_0_r. f_equal.
  rewrite <- seq_shift, map_map. unfold rsum. f_equal.
  apply map_ext. intros j. cbn [nth]. f_equal. lia.
Qed.

Lemma rsum_filter (P : nat -> bool) (H : nat -> R) l :
  rsum (map (fun k => if P k then H k else 0) l) = rsum (map H (filter P l)).
Proof. unfold rsum. induction l as [|a l IH]; cbn; [reflexivity|]. destruct (P a); cbn; rewrite IH; lra. Qed.

Lemma rsum_perm (G : nat -> R) l l' : Permutation l l' -> rsum (map G l) = rsum (map G l').
Proof. unfold rsum. induction 1; cbn in *; try lra. Qed.

Lemma shift_perm n q : (q < n)%nat ->
  Permutation
    (map (fun k => (k + 2 ^ q)%nat) (filter (fun k => negb (Nat.testbit k q)) (seq 0 (2 ^ n))))
    (filter (fun k => Nat.testbit k q) (seq 0 (2 ^ n))).
Proof.
  intros Hq. apply NoDup_Permutation.
  - apply Injective_map_NoDup; [intros x y; lia|]. apply NoDup_filter, seq_NoDup.
  - apply NoDup_filter, seq_NoDup.
  - intros j. rewrite in_map_iff, filter_In, in_seq. split.
    + intros (k & <- & Hk). apply filter_In in Hk. destruct Hk as [Hk Hb]. apply in_seq in Hk.
      apply negb_true_iff in Hb. split.
      * pose proof (bit_clear_add_lt n q k Hq ltac:(lia) Hb). lia.
      * rewrite add_pow2_bits by assumption. rewrite Nat.eqb_refl. reflexivity.
    + intros [Hj Hb]. destruct (clear_bit_sub j q Hb) as (x & -> & Hx).
      exists x. split; [reflexivity|]. apply filter_In. split; [apply in_seq; lia|]. rewrite Hx. reflexivity.
Qed.

Definition resetf (q : nat) (one : bool) (nrm : R) (st : list RC) : nat -> RC -> RC :=
  fun k a => if Nat.testbit k q then c0 Rops
             else cdivr Rops (if one then nth (k + 2 ^ q) st (c0 Rops) else a) nrm.

Lemma reset_post_raw q r st :
  let one := fst (reset_state Rops q r st) in
  snd (reset_state Rops q r st) = imap (resetf q one (sqrt (wbranch q one st)) st) 0 st.
Proof.
  cbv zeta. unfold reset_state. cbn [fst snd]. unfold indexed.
  set (one := pick_branch Rops r (prob0 Rops q st) (prob1 Rops q st)).
  rewrite <- (map_indexed_imap (resetf q one (sqrt (wbranch q one st)) st)).
  reflexivity.
Qed.

Lemma reset_post_eq q r st : norm2 st = 1 ->
  let one := fst (reset_state Rops q r st) in
  snd (reset_state Rops q r st) = imap (resetf q one (sqrt (p_branch q one st)) st) 0 st.
Proof. intros Hn. cbv zeta. rewrite reset_post_raw. cbv zeta. rewrite wbranch_eq by assumption. reflexivity. Qed.

Lemma reset_outcome_iff q r st : norm2 st = 1 -> 0 <= r < 1 ->
  (fst (reset_state Rops q r st) = true <-> r < prob1 Rops q st).
Proof. intros Hn Hr. unfold reset_state. cbn [fst]. rewrite pick_eq by assumption. apply sltb_iff. Qed.

Lemma shifted_weight n q st : (q < n)%nat -> length st = (2 ^ n)%nat ->
  isum (fun k _ => if Nat.testbit k q then 0 else cn2 (nth (k + 2 ^ q) st (c0 Rops))) 0 st = prob1 Rops q st.
Proof.
  intros Hq Hl. rewrite prob1_isum, !isum_as_rsum, Hl. cbn [plus].
  set (G := fun j => cn2 (nth j st (c0 Rops))).
  rewrite (map_ext _ (fun k => if negb (Nat.testbit k q) then G (k + 2 ^ q)%nat else 0)).
  2:{ intros k. destruct (Nat.testbit k q); reflexivity. }
  rewrite (map_ext (fun j => w1f q j (nth j st (c0 Rops))) (fun k => if Nat.testbit k q then G k else 0)).
  2:{ intros k. unfold w1f. reflexivity. }
  rewrite (rsum_filter (fun k => negb (Nat.testbit k q)) (fun k => G (k + 2 ^ q)%nat)), rsum_filter.
  rewrite <- (map_map (fun k => (k + 2 ^ q)%nat) G). apply rsum_perm, shift_perm. assumption.
Qed.

Theorem reset_norm n q r st : (q < n)%nat -> length st = (2 ^ n)%nat -> norm2 st = 1 -> 0 <= r < 1 ->
  norm2 (snd (reset_state Rops q r st)) = 1.
Proof.
  intros Hq Hl Hn Hr. rewrite reset_post_eq by assumption.
  set (one := fst (reset_state Rops q r st)). set (p := p_branch q one st).
  assert (Hp : 0 < p).
  { unfold p, p_branch. destruct one eqn:E.
    - apply reset_outcome_iff in E; auto. lra.
    - assert (~ r < prob1 Rops q st) by (intros H; apply reset_outcome_iff in H; auto; unfold one in E; congruence). lra. }
  assert (Hs : sqrt p <> 0) by (intros E; apply sqrt_eq_0 in E; lra).
  assert (Hss : sqrt p * sqrt p = p) by (apply sqrt_sqrt; lra).
  unfold norm2. rewrite isum_imap.
  destruct one eqn:E.
  - rewrite (isum_ext _ (fun k a => / p * (if Nat.testbit k q then 0 else cn2 (nth (k + 2 ^ q) st (c0 Rops))))).
    + rewrite isum_scal, (shifted_weight n q st Hq Hl). unfold p, p_branch. field. unfold p, p_branch in Hp. lra.
    + intros j _. unfold resetf. cbn [plus]. destruct (Nat.testbit j q); [rewrite cn2_c0; lra|].
      rewrite cn2_divr by assumption. rewrite Hss. unfold Rdiv. lra.
  - rewrite (isum_ext _ (fun k a => / p * w0f q k a)).
    + rewrite isum_scal. pose proof (norm2_split q st) as Hsp.
      assert (Ep : p = isum (w0f q) 0 st) by (unfold p, p_branch; rewrite prob1_isum; lra).
      rewrite <- Ep. field. lra.
    + intros j _. unfold resetf, w0f. cbn [plus]. destruct (Nat.testbit j q); [rewrite cn2_c0; lra|].
      rewrite cn2_divr by assumption. rewrite Hss. unfold Rdiv. lra.
Qed.

(* the target ends in |0>: no amplitude is left where bit q is 1 *)
Theorem reset_target_zero q r st k : (k < length st)%nat -> Nat.testbit k q = true ->
  nth k (snd (reset_state Rops q r st)) (c0 Rops) = c0 Rops.
Proof. intros Hk Hb. rewrite reset_post_raw, nth_imap by assumption. unfold resetf. cbn [plus]. rewrite Hb. reflexivity. Qed.

(* ---------- locality: the reduced state of the other qubits is unchanged on average ---------- *)
Definition cmulc (x y : RC) : RC := (fst x * fst y + snd x * snd y, snd x * fst y - fst x * snd y).   (* x * conj y *)
Definition cscale (c : R) (x : RC) : RC := (c * fst x, c * snd x).
Definition rho (q : nat) (st : list RC) (a b : nat) : RC :=
  cadd Rops (cmulc (nth a st (c0 Rops)) (nth b st (c0 Rops)))
            (cmulc (nth (a + 2 ^ q) st (c0 Rops)) (nth (b + 2 ^ q) st (c0 Rops))).

Theorem reset_local n q st r0 r1 a b :
  (q < n)%nat -> length st = (2 ^ n)%nat -> norm2 st = 1 ->
  0 <= r1 < prob1 Rops q st -> prob1 Rops q st <= r0 < 1 ->
  (a < 2 ^ n)%nat -> (b < 2 ^ n)%nat -> Nat.testbit a q = false -> Nat.testbit b q = false ->
  cadd Rops (cscale (prob1 Rops q st) (rho q (snd (reset_state Rops q r1 st)) a b))
            (cscale (1 - prob1 Rops q st) (rho q (snd (reset_state Rops q r0 st)) a b))
  = rho q st a b.
Proof.
  intros Hq Hl Hn Hr1 Hr0 Ha Hb Ba Bb.
  set (p1 := prob1 Rops q st) in *.
  assert (Hp1r : 0 <= p1 <= 1) by (apply prob1_range; assumption).
  assert (E1 : fst (reset_state Rops q r1 st) = true) by (apply reset_outcome_iff; auto; fold p1; lra).
  assert (E0 : fst (reset_state Rops q r0 st) = false).
  { destruct (fst (reset_state Rops q r0 st)) eqn:E; [|reflexivity]. apply reset_outcome_iff in E; auto; [fold p1 in E; lra|lra]. }
  pose proof (bit_clear_add_lt n q a Hq Ha Ba) as Has. pose proof (bit_clear_add_lt n q b Hq Hb Bb) as Hbs.
  assert (Bas : Nat.testbit (a + 2 ^ q) q = true) by (rewrite add_pow2_bits by assumption; rewrite Nat.eqb_refl; reflexivity).
  assert (Bbs : Nat.testbit (b + 2 ^ q) q = true) by (rewrite add_pow2_bits by assumption; rewrite Nat.eqb_refl; reflexivity).
  unfold rho. rewrite !reset_post_eq, E1, E0 by assumption.
  rewrite !nth_imap by lia. cbn [plus]. unfold resetf. rewrite Ba, Bb, Bas, Bbs.
  unfold p_branch. fold p1.
  assert (Hp1 : 0 < p1) by lra. assert (Hp0 : 0 < 1 - p1) by lra.
  assert (S1 : sqrt p1 * sqrt p1 = p1) by (apply sqrt_sqrt; lra).
  assert (S0 : sqrt (1 - p1) * sqrt (1 - p1) = 1 - p1) by (apply sqrt_sqrt; lra).
  assert (N1 : sqrt p1 <> 0) by (intros E; apply sqrt_eq_0 in E; lra).
  assert (N0 : sqrt (1 - p1) <> 0) by (intros E; apply sqrt_eq_0 in E; lra).
  set (s1 := sqrt p1) in *. set (s0 := sqrt (1 - p1)) in *.
  destruct (nth a st (c0 Rops)) as [xa ya]. destruct (nth b st (c0 Rops)) as [xb yb].
  destruct (nth (a + 2 ^ q) st (c0 Rops)) as [xas yas]. destruct (nth (b + 2 ^ q) st (c0 Rops)) as [xbs ybs].
  clearbody s1 s0.
  unfold cadd, cscale, cmulc, cdivr, c0. cbn [fst snd Rops sadd sdiv SimModel.s0].
  rewrite <- S0, <- S1.
  apply pair2; field; auto.
Qed.
