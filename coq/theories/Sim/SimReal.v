(* The scalar instance S := R (Coq reals): gate matrices vs. qelib1, unitarity. *)
From Coq Require Import Reals Lra List.
From Bloch Require Import Sim.SimModel.
Import ListNotations.
Local Open Scope R_scope.

Definition Rops : sops R :=
  {| s0 := 0; s1 := 1; s2 := 2; sadd := Rplus; ssub := Rminus; smul := Rmult; sdiv := Rdiv;
     sneg := Ropp; ssqrt := sqrt; scos := cos; ssin := sin;
     sltb := fun a b => if Rlt_dec a b then true else false;
     sis0 := fun a => if Req_EM_T a 0 then true else false |}.

Notation RC := (C (F:=R)).
Definition cexp (x : R) : RC := (cos x, sin x).
Definition rcmul (a b : RC) : RC := cmul Rops a b.
Definition rcneg (a : RC) : RC := (- fst a, - snd a).
Definition rcre (x : R) : RC := (x, 0).

(* OpenQASM 2 / qelib1: U(theta,phi,lambda) *)
Definition U3 (th ph la : R) : mat (F:=R) :=
  (rcre (cos (th / 2)), rcneg (rcmul (cexp la) (rcre (sin (th / 2)))),
   rcmul (cexp ph) (rcre (sin (th / 2))), rcmul (cexp (ph + la)) (rcre (cos (th / 2)))).
Definition U2 (ph la : R) := U3 (PI / 2) ph la.
Definition U1 (la : R) := U3 0 0 la.

Definition mat_scale (p : RC) (m : mat (F:=R)) : mat (F:=R) :=
  (rcmul p (m0 m), rcmul p (m1 m), rcmul p (m2 m), rcmul p (m3 m)).
Definition eq_up_to_phase (m u : mat (F:=R)) : Prop := exists phi, m = mat_scale (cexp phi) u.

Ltac cplx := cbn [gate_matrix];
             unfold U2, U1; unfold U3, mat_scale, rcmul, rcneg, rcre, cexp, cmul, cre, c0, half, isq2, m0, m1, m2, m3;
             cbn [Rops s0 s1 s2 sadd ssub smul sdiv sneg ssqrt scos ssin fst snd].

Lemma pair4 {A} (a b c d a' b' c' d' : A) : a = a' -> b = b' -> c = c' -> d = d' -> (a, b, c, d) = (a', b', c', d').
Proof. intros; subst; reflexivity. Qed.
Lemma pair2 {A B} (a a' : A) (b b' : B) : a = a' -> b = b' -> (a, b) = (a', b').
Proof. intros; subst; reflexivity. Qed.

Lemma cos_PI2_0 : cos (PI / 2) = 0. Proof. apply cos_PI2. Qed.
Lemma sin_PI2_1 : sin (PI / 2) = 1. Proof. apply sin_PI2. Qed.
Lemma cos_PI4_isq : cos (PI / 2 / 2) = 1 / sqrt 2.
Proof. replace (PI / 2 / 2) with (PI / 4) by lra. apply cos_PI4. Qed.
Lemma sin_PI4_isq : sin (PI / 2 / 2) = 1 / sqrt 2.
Proof. replace (PI / 2 / 2) with (PI / 4) by lra. apply sin_PI4. Qed.

Theorem mX_is_qelib : gate_matrix Rops GX = U3 PI 0 PI.
Proof.
  cplx. rewrite cos_PI2_0, sin_PI2_1, cos_PI, sin_PI, cos_0, sin_0, Rplus_0_l, cos_PI, sin_PI.
  apply pair4; apply pair2; lra.
Qed.

Theorem mY_is_qelib : gate_matrix Rops GY = U3 PI (PI / 2) (PI / 2).
Proof.
  cplx. replace (PI / 2 + PI / 2) with PI by lra.
  rewrite cos_PI2_0, sin_PI2_1, cos_PI, sin_PI.
  apply pair4; apply pair2; lra.
Qed.

Theorem mZ_is_qelib : gate_matrix Rops GZ = U1 PI.
Proof.
  cplx. replace (0 / 2) with 0 by lra. rewrite Rplus_0_l, cos_0, sin_0, cos_PI, sin_PI.
  apply pair4; apply pair2; lra.
Qed.

Theorem mH_is_qelib : gate_matrix Rops GH = U2 0 PI.
Proof.
  cplx. rewrite cos_PI4_isq, sin_PI4_isq, Rplus_0_l, cos_0, sin_0, cos_PI, sin_PI.
  apply pair4; apply pair2; lra.
Qed.

Theorem mRx_is_qelib t : gate_matrix Rops (GRx t) = U3 t (- (PI / 2)) (PI / 2).
Proof.
  cplx. replace (- (PI / 2) + PI / 2) with 0 by lra.
  rewrite cos_neg, sin_neg, cos_PI2_0, sin_PI2_1, cos_0, sin_0.
  apply pair4; apply pair2; lra.
Qed.

Theorem mRy_is_qelib t : gate_matrix Rops (GRy t) = U3 t 0 0.
Proof.
  cplx. rewrite Rplus_0_l, cos_0, sin_0.
  apply pair4; apply pair2; lra.
Qed.

(* rz(t) = diag(e^{-it/2}, e^{it/2}) = e^{-it/2} * u1(t): equal up to a global phase *)
Theorem mRz_is_qelib t : eq_up_to_phase (gate_matrix Rops (GRz t)) (U1 t).
Proof.
  exists (- (t / 2)). cplx. replace (0 / 2) with 0 by lra. replace (- t / 2) with (- (t / 2)) by lra.
  rewrite Rplus_0_l, cos_0, sin_0.
  apply pair4; apply pair2; try lra.
  - replace (t / 2) with (- (t / 2) + t) at 1 by lra. rewrite cos_plus. lra.
  - replace (t / 2) with (- (t / 2) + t) at 1 by lra. rewrite sin_plus. lra.
Qed.

(* the rotations in closed form: cos(t/2) I - i sin(t/2) P, i.e. exp(-i t P / 2) *)
Definition pauli_rot (t : R) (p : mat (F:=R)) : mat (F:=R) :=
  let c := rcre (cos (t / 2)) in let ms := (0, - sin (t / 2)) : RC in
  let e (x : RC) (d : R) : RC := cadd Rops (rcmul c (rcre d)) (rcmul ms x) in
  (e (m0 p) 1, e (m1 p) 0, e (m2 p) 0, e (m3 p) 1).

Theorem rot_closed_form t :
  gate_matrix Rops (GRx t) = pauli_rot t (gate_matrix Rops GX) /\
  gate_matrix Rops (GRy t) = pauli_rot t (gate_matrix Rops GY) /\
  gate_matrix Rops (GRz t) = pauli_rot t (gate_matrix Rops GZ).
Proof.
  unfold pauli_rot, cadd. cplx. replace (- t / 2) with (- (t / 2)) by lra. rewrite cos_neg, sin_neg.
  repeat split; apply pair4; apply pair2; lra.
Qed.

(* unitarity: columns orthonormal *)
Definition cn2 (a : RC) : R := cnorm2 Rops a.
Definition unitary2 (m : mat (F:=R)) : Prop :=
  cn2 (m0 m) + cn2 (m2 m) = 1 /\ cn2 (m1 m) + cn2 (m3 m) = 1 /\
  fst (m0 m) * fst (m1 m) + snd (m0 m) * snd (m1 m) + fst (m2 m) * fst (m3 m) + snd (m2 m) * snd (m3 m) = 0 /\
  fst (m0 m) * snd (m1 m) - snd (m0 m) * fst (m1 m) + fst (m2 m) * snd (m3 m) - snd (m2 m) * fst (m3 m) = 0.

Lemma isq2_sq : 1 / sqrt 2 * (1 / sqrt 2) = 1 / 2.
Proof.
  assert (H : sqrt 2 * sqrt 2 = 2) by (apply sqrt_sqrt; lra).
  assert (Hn : sqrt 2 <> 0) by (intros E; rewrite E in H; lra).
  field_simplify_eq; [|assumption]. nra.
Qed.

Theorem gates_unitary g : unitary2 (gate_matrix Rops g).
Proof.
  unfold unitary2, cn2, cnorm2.
  destruct g as [| | | |t|t|t]; cplx.
  - pose proof isq2_sq. repeat split; nra.
  - repeat split; lra.
  - repeat split; lra.
  - repeat split; lra.
  - pose proof (sin2_cos2 (t / 2)) as H. unfold Rsqr in H. repeat split; nra.
  - pose proof (sin2_cos2 (t / 2)) as H. unfold Rsqr in H. repeat split; nra.
  - pose proof (sin2_cos2 (t / 2)) as H. pose proof (sin2_cos2 (- t / 2)) as H2. unfold Rsqr in *. repeat split; nra.
Qed.
