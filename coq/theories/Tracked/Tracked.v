(* @tracked / @shots reporting: outcome strings, per-shot tables, aggregation, probabilities,
   shot-count and echo decisions (runtime_evaluator.cpp: endScope / recordTrackedValue, cli.cpp). *)
From Coq Require Import List Arith String Bool Lia QArith.
From Bloch Require Import Common.ListUpd Sim.SimModel Sim.EvalQ.
Import ListNotations.
Local Open Scope nat_scope.
Local Open Scope string_scope.

(* ---- outcome of one tracked value at the moment its scope (or owning object) ends ---- *)
Definition bit_s (b : bool) : string := if b then "1" else "0".
Fixpoint all_some (l : list (option bool)) : option (list bool) :=
  match l with
  | [] => Some []
  | Some b :: r => match all_some r with Some bs => Some (b :: bs) | None => None end
  | None :: _ => None
  end.
Definition outcome (lasts : list (option bool)) : string :=
  match all_some lasts with
  | Some bs => fold_right (fun b acc => bit_s b ++ acc) "" bs
  | None => "?"
  end.

(* ---- tables: variable -> outcome -> count ---- *)
Definition row := list (string * nat).
Definition table := list (string * row).

Fixpoint row_add (o : string) (k : nat) (r : row) : row :=
  match r with
  | [] => [(o, k)]
  | (o', c) :: t => if String.eqb o' o then (o', c + k) :: t else (o', c) :: row_add o k t
  end.
Fixpoint tab_add (v o : string) (k : nat) (t : table) : table :=
  match t with
  | [] => [(v, [(o, k)])]
  | (v', r) :: rest => if String.eqb v' v then (v', row_add o k r) :: rest else (v', r) :: tab_add v o k rest
  end.
Fixpoint row_get (o : string) (r : row) : nat :=
  match r with [] => 0 | (o', c) :: t => if String.eqb o' o then c else row_get o t end.
Fixpoint tab_row (v : string) (t : table) : row :=
  match t with [] => [] | (v', r) :: rest => if String.eqb v' v then r else tab_row v rest end.
Definition tab_get (v o : string) (t : table) : nat := row_get o (tab_row v t).
Definition row_total (r : row) : nat := fold_right (fun p acc => snd p + acc) 0 r.
Definition tab_total (v : string) (t : table) : nat := row_total (tab_row v t).

(* one shot: every scope exit contributes one outcome *)
Definition shot_table (events : list (string * string)) : table :=
  fold_left (fun t ev => tab_add (fst ev) (snd ev) 1 t) events [].

(* the CLI's aggregate: per-shot tables added entry by entry *)
Definition row_merge (into : table) (v : string) (r : row) : table :=
  fold_left (fun t p => tab_add v (fst p) (snd p) t) r into.
Definition tab_merge (into t : table) : table := fold_left (fun acc vr => row_merge acc (fst vr) (snd vr)) t into.
Definition aggregate (ts : list table) : table := fold_left tab_merge ts [].

Definition count_events (v : string) (events : list (string * string)) : nat :=
  List.length (filter (fun ev => String.eqb (fst ev) v) events).

(* printed probability: count / the variable's own total *)
Definition prob (c total : nat) : Q := if Nat.eqb total 0 then 0%Q else (Z.of_nat c # Pos.of_nat total)%Q.

(* ---- shot count and echo decisions (cli.cpp) ---- *)
Definition shots_decision (cli annot : option nat) : bool * nat :=
  match cli, annot with
  | _, Some a => (true, a)          (* @shots(N) on main wins, with or without --shots *)
  | Some c, None => (true, c)
  | None, None => (false, 1)
  end.
Inductive echo_mode := EchoDefault | EchoAuto | EchoAll | EchoNone.
Definition echo_enabled (m : echo_mode) (provided : bool) (shots : nat) : bool :=
  match m with
  | EchoDefault | EchoAuto => negb provided || Nat.eqb shots 1
  | EchoAll => true
  | EchoNone => false
  end.

(* ---- scripted shots: qubit operations interleaved with scope exits of tracked values ---- *)
Section Run.
  Context {F : Type} (O : sops F).
  Inductive top := TOp (o : eop (F:=F)) | TExit (h : nat) (key : string) | TExitEl (h el : nat) (key : string).

  Definition outcome_of (e : evq (F:=F)) (h : nat) : string :=
    match handle e h with
    | Some idxs => outcome (map (fun i => nth i (elast e) None) idxs)
    | None => "?"
    end.

  Fixpoint t_run (e : evq (F:=F)) (ops : list top) (ds : list F) (log : list (string * string))
    : evq (F:=F) * list (string * string) * list F * bool :=
    match ops with
    | [] => (e, log, ds, true)
    | TExit h key :: r => t_run e r ds (log ++ [(key, outcome_of e h)])
    | TExitEl h el key :: r =>
      let o := match resolve e h el with Some i => outcome [nth i (elast e) None] | None => "?" end in
      t_run e r ds (log ++ [(key, o)])
    | TOp o :: r =>
      let '(e1, res, ds1) := ev_step O e o ds in
      match res with
      | RErr _ => (e1, log, ds1, false)
      | ROk _ => t_run e1 r ds1 log
      end
    end.

  (* N shots over one program: a fresh evaluator per shot, draws consumed consecutively *)
  Fixpoint shots_run (n : nat) (ops : list top) (ds : list F) : list table * list F :=
    match n with
    | 0 => ([], ds)
    | S k =>
      let '(_, log, ds1, _) := t_run (evq_init O) ops ds [] in
      let (ts, ds2) := shots_run k ops ds1 in
      (shot_table log :: ts, ds2)
    end.
End Run.
