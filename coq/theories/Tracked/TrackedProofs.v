From Coq Require Import List Arith Ascii String Bool Lia QArith ZArith.
From Bloch Require Import Common.ListUpd Sim.SimModel Sim.EvalQ Tracked.Tracked.
Import ListNotations.
Local Open Scope nat_scope.

(* ---------- rows and tables ---------- *)
Lemma row_total_add o k r : row_total (row_add o k r) = row_total r + k.
Proof.
  induction r as [|[o' c] t IH]; cbn; [lia|]. destruct (String.eqb o' o); cbn; [lia|]. unfold row_total in IH. rewrite IH. lia.
Qed.
Lemma row_get_add o o' k r : row_get o (row_add o' k r) = row_get o r + (if String.eqb o' o then k else 0).
Proof.
  induction r as [|[o2 c] t IH]; cbn.
  - destruct (String.eqb o' o); lia.
  - destruct (String.eqb o2 o') eqn:E1.
    + apply String.eqb_eq in E1. subst o2. cbn. destruct (String.eqb o' o); lia.
    + cbn. destruct (String.eqb o2 o) eqn:E2.
      * apply String.eqb_eq in E2. subst o2. rewrite String.eqb_sym in E1. rewrite E1. lia.
      * exact IH.
Qed.

Lemma tab_row_add_same v o k t : tab_row v (tab_add v o k t) = row_add o k (tab_row v t).
Proof.
  induction t as [|[v' r] rest IH]; cbn.
  - rewrite String.eqb_refl. reflexivity.
  - destruct (String.eqb v' v) eqn:E; cbn; rewrite E; [reflexivity|exact IH].
Qed.
Lemma tab_row_add_other v v' o k t : String.eqb v' v = false -> tab_row v (tab_add v' o k t) = tab_row v t.
Proof.
  intros Hne. induction t as [|[v2 r] rest IH]; cbn.
  - rewrite Hne. reflexivity.
  - destruct (String.eqb v2 v') eqn:E; cbn.
    + apply String.eqb_eq in E. subst v2. rewrite Hne. reflexivity.
    + destruct (String.eqb v2 v); [reflexivity|exact IH].
Qed.

Lemma tab_total_add v v' o k t : tab_total v (tab_add v' o k t) = tab_total v t + (if String.eqb v' v then k else 0).
Proof.
  unfold tab_total. destruct (String.eqb v' v) eqn:E.
  - apply String.eqb_eq in E. subst v'. rewrite tab_row_add_same. apply row_total_add.
  - rewrite tab_row_add_other by assumption. lia.
Qed.
Lemma tab_get_add v o v' o' k t :
  tab_get v o (tab_add v' o' k t) = tab_get v o t + (if String.eqb v' v && String.eqb o' o then k else 0).
Proof.
  unfold tab_get. destruct (String.eqb v' v) eqn:E; cbn [andb].
  - apply String.eqb_eq in E. subst v'. rewrite tab_row_add_same. apply row_get_add.
  - rewrite tab_row_add_other by assumption. lia.
Qed.

(* one outcome per scope exit: the counts of a variable sum to its number of exits *)
Lemma shot_table_total_gen v events : forall t0,
  tab_total v (fold_left (fun t ev => tab_add (fst ev) (snd ev) 1 t) events t0) = tab_total v t0 + count_events v events.
Proof.
  induction events as [|[k o] r IH]; intros t0; cbn [fold_left]; [unfold count_events; cbn; lia|].
  rewrite IH. cbn [fst snd]. rewrite tab_total_add. unfold count_events. cbn [filter fst].
  destruct (String.eqb k v); cbn [List.length]; lia.
Qed.
Theorem counts_sum v events : tab_total v (shot_table events) = count_events v events.
Proof. unfold shot_table. rewrite shot_table_total_gen. reflexivity. Qed.

Definition count_pair (v o : string) (events : list (string * string)) : nat :=
  List.length (filter (fun ev => String.eqb (fst ev) v && String.eqb (snd ev) o) events).
Lemma shot_table_get_gen v o events : forall t0,
  tab_get v o (fold_left (fun t ev => tab_add (fst ev) (snd ev) 1 t) events t0) = tab_get v o t0 + count_pair v o events.
Proof.
  induction events as [|[k x] r IH]; intros t0; cbn [fold_left]; [unfold count_pair; cbn; lia|].
  rewrite IH. cbn [fst snd]. rewrite tab_get_add. unfold count_pair. cbn [filter fst snd].
  destruct (String.eqb k v && String.eqb x o); cbn [List.length]; lia.
Qed.
Theorem shot_table_counts v o events : tab_get v o (shot_table events) = count_pair v o events.
Proof. unfold shot_table. rewrite shot_table_get_gen. reflexivity. Qed.

(* ---------- aggregation ---------- *)
Definition row_wf (r : row) : Prop := NoDup (map fst r).
Definition tab_wf (t : table) : Prop := NoDup (map fst t) /\ Forall (fun vr => row_wf (snd vr)) t.

Lemma row_add_keys o k r : forall x, In x (map fst (row_add o k r)) <-> x = o \/ In x (map fst r).
Proof.
  induction r as [|[o' c] t IH]; intros x; cbn; [intuition (subst; auto)|].
  destruct (String.eqb o' o) eqn:E; cbn.
  - apply String.eqb_eq in E. subst. intuition (subst; auto).
  - rewrite IH. intuition (subst; auto).
Qed.
Lemma row_add_wf o k r : row_wf r -> row_wf (row_add o k r).
Proof.
  unfold row_wf. induction r as [|[o' c] t IH]; cbn; intros H; [repeat constructor; auto|].
  inversion H as [|? ? Hn Ht]; subst. destruct (String.eqb o' o) eqn:E; cbn.
  - constructor; assumption.
  - constructor; [|apply IH; assumption]. cbn [fst]. intros Hc. apply row_add_keys in Hc. destruct Hc as [Hc|Hc]; [subst o'; rewrite String.eqb_refl in E; discriminate|contradiction].
Qed.
Lemma tab_add_keys v o k t : forall x, In x (map fst (tab_add v o k t)) <-> x = v \/ In x (map fst t).
Proof.
  induction t as [|[v' r] rest IH]; intros x; cbn; [intuition (subst; auto)|].
  destruct (String.eqb v' v) eqn:E; cbn.
  - apply String.eqb_eq in E. subst. intuition (subst; auto).
  - rewrite IH. intuition (subst; auto).
Qed.
Lemma tab_add_wf v o k t : tab_wf t -> tab_wf (tab_add v o k t).
Proof.
  intros [Hn Hf]. induction t as [|[v' r] rest IH]; cbn.
  - split; [repeat constructor; auto|]. repeat constructor. cbn. intros [].
  - inversion Hn as [|? ? Hni Hnr]; subst. inversion Hf as [|? ? Hr Hfr]; subst.
    destruct (String.eqb v' v) eqn:E; cbn.
    + split; [constructor; assumption|]. constructor; [apply row_add_wf; assumption|assumption].
    + destruct (IH Hnr Hfr) as [A B]. split.
      * constructor; [|exact A]. cbn [fst]. intros Hc. apply tab_add_keys in Hc. destruct Hc as [Hc|Hc]; [subst v'; rewrite String.eqb_refl in E; discriminate|contradiction].
      * constructor; assumption.
Qed.
Lemma shot_table_wf events : tab_wf (shot_table events).
Proof.
  unfold shot_table. assert (H : forall t0, tab_wf t0 -> tab_wf (fold_left (fun t ev => tab_add (fst ev) (snd ev) 1 t) events t0)).
  { induction events as [|ev r IH]; intros t0 Hw; cbn; [assumption|]. apply IH. apply tab_add_wf. assumption. }
  apply H. split; constructor.
Qed.

Lemma row_merge_get v o v' r : row_wf r -> forall into,
  tab_get v o (row_merge into v' r) = tab_get v o into + (if String.eqb v' v then row_get o r else 0).
Proof.
  unfold row_merge, row_wf. induction r as [|[o' c] t IH]; intros Hw into; cbn [fold_left map row_get].
  - destruct (String.eqb v' v); lia.
  - inversion Hw as [|? ? Hni Hnt]; subst. rewrite IH by assumption. cbn [fst snd]. rewrite tab_get_add.
    destruct (String.eqb v' v) eqn:Ev; cbn [andb]; [|lia].
    destruct (String.eqb o' o) eqn:Eo; [|lia].
    apply String.eqb_eq in Eo. subst o'.
    assert (Z : row_get o t = 0).
    { clear -Hni. induction t as [|[o2 c2] t IH]; cbn; [reflexivity|]. cbn in Hni.
      destruct (String.eqb o2 o) eqn:E; [apply String.eqb_eq in E; subst; exfalso; apply Hni; left; reflexivity|].
      apply IH. intros Hin. apply Hni. right. assumption. }
    lia.
Qed.

Lemma tab_row_absent v t : ~ In v (map fst t) -> tab_row v t = [].
Proof.
  induction t as [|[v' r] rest IH]; cbn; intros H; [reflexivity|].
  destruct (String.eqb v' v) eqn:E; [apply String.eqb_eq in E; subst; exfalso; apply H; left; reflexivity|].
  apply IH. intros Hin. apply H. right. assumption.
Qed.

Lemma tab_get_cons v o v' r rest : tab_get v o ((v', r) :: rest) = if String.eqb v' v then row_get o r else tab_get v o rest.
Proof. unfold tab_get. cbn [tab_row]. destruct (String.eqb v' v); reflexivity. Qed.
Lemma tab_get_absent v o t : ~ In v (map fst t) -> tab_get v o t = 0.
Proof. intros H. unfold tab_get. rewrite (tab_row_absent v t H). reflexivity. Qed.

Lemma tab_merge_get v o t : tab_wf t -> forall into,
  tab_get v o (tab_merge into t) = tab_get v o into + tab_get v o t.
Proof.
  unfold tab_merge. induction t as [|[v' r] rest IH]; intros [Hn Hf] into; cbn [fold_left].
  - unfold tab_get at 3. cbn. lia.
  - inversion Hn as [|? ? Hni Hnr]; subst. inversion Hf as [|? ? Hr Hfr]; subst.
    rewrite IH by (split; assumption). cbn [fst snd]. rewrite row_merge_get by assumption.
    rewrite tab_get_cons. destruct (String.eqb v' v) eqn:E.
    + apply String.eqb_eq in E. subst v'. cbn in Hni. rewrite (tab_get_absent v o rest Hni). lia.
    + lia.
Qed.

Lemma tab_merge_wf t : forall into, tab_wf into -> tab_wf (tab_merge into t).
Proof.
  unfold tab_merge. induction t as [|[v r] rest IH]; intros into Hw; cbn [fold_left]; [assumption|].
  apply IH. cbn [fst snd]. unfold row_merge. generalize dependent into.
  induction r as [|[o c] rr IHr]; intros into Hw; cbn [fold_left]; [assumption|]. apply IHr. apply tab_add_wf. assumption.
Qed.

(* the aggregate table is the per-shot tables added together *)
Theorem aggregate_is_sum v o ts : Forall tab_wf ts ->
  tab_get v o (aggregate ts) = fold_right (fun t acc => tab_get v o t + acc) 0 ts.
Proof.
  unfold aggregate. intros F.
  assert (H : forall into, tab_get v o (fold_left tab_merge ts into) = tab_get v o into + fold_right (fun t acc => tab_get v o t + acc) 0 ts).
  { induction F as [|t r Ht Fr IH]; intros into; cbn [fold_left fold_right]; [lia|].
    rewrite IH. rewrite tab_merge_get by assumption. lia. }
  rewrite H. unfold tab_get at 1. cbn. lia.
Qed.

(* ---------- probabilities ---------- *)
Local Open Scope Q_scope.
Lemma prob_range c total : (c <= total)%nat -> (0 < total)%nat -> 0 <= prob c total /\ prob c total <= 1.
Proof.
  intros Hc Ht. unfold prob. destruct (Nat.eqb_spec total 0); [lia|].
  unfold Qle. cbn. split; [lia|]. rewrite Z.mul_1_r. rewrite Pos2Z.inj_mul || idtac.
  assert (Z.pos (Pos.of_nat total) = Z.of_nat total) by (rewrite <- positive_nat_Z, Nat2Pos.id; auto). lia.
Qed.

Definition row_prob_sum (r : row) (total : nat) : Q := fold_right (fun p acc => prob (snd p) total + acc) 0 r.

Lemma row_prob_sum_eq r total : (0 < total)%nat -> row_prob_sum r total == (Z.of_nat (row_total r) # Pos.of_nat total).
Proof.
  intros Ht. induction r as [|[o c] t IH]; cbn [row_prob_sum fold_right row_total snd].
  - reflexivity.
  - unfold row_prob_sum in IH. rewrite IH. unfold prob. destruct (Nat.eqb_spec total 0); [lia|].
    unfold Qeq, Qplus. cbn. fold (row_total t). rewrite Nat2Z.inj_add, Pos2Z.inj_mul. ring.
Qed.

(* the printed probabilities of a variable sum to 1 *)
Theorem probs_sum_to_one r : (0 < row_total r)%nat -> row_prob_sum r (row_total r) == 1.
Proof.
  intros Ht. rewrite row_prob_sum_eq by assumption. unfold Qeq. cbn.
  rewrite Z.mul_1_r. rewrite <- positive_nat_Z, Nat2Pos.id by lia. lia.
Qed.

Lemma row_entry_le r : forall o c, In (o, c) r -> (c <= row_total r)%nat.
Proof. induction r as [|[o' c'] t IH]; cbn; intros o c Hin; [destruct Hin|]. destruct Hin as [E|Hin]; [injection E as -> ->; lia|]. specialize (IH _ _ Hin). unfold row_total in IH. lia. Qed.

Local Close Scope Q_scope.

(* ---------- outcome strings ---------- *)
Lemma outcome_question lasts : In None lasts -> outcome lasts = "?"%string.
Proof.
  unfold outcome. intros H. assert (E : all_some lasts = None).
  { induction lasts as [|[b|] r IH]; cbn; [destruct H| |reflexivity].
    destruct H as [H|H]; [discriminate|]. rewrite (IH H). reflexivity. }
  rewrite E. reflexivity.
Qed.
Lemma all_some_map bs : all_some (map Some bs) = Some bs.
Proof. induction bs as [|b r IH]; cbn; [reflexivity|]. rewrite IH. reflexivity. Qed.
Fixpoint bits_string (bs : list bool) : string := match bs with [] => EmptyString | b :: r => String (if b then "1" else "0")%char (bits_string r) end.
Lemma outcome_bits bs : outcome (map Some bs) = bits_string bs.
Proof. unfold outcome. rewrite all_some_map. induction bs as [|b r IH]; cbn; [reflexivity|]. rewrite IH. destruct b; reflexivity. Qed.
Lemma bits_length bs : String.length (bits_string bs) = List.length bs.
Proof. induction bs; cbn; auto. Qed.

(* ---------- decisions ---------- *)
Lemma annotation_wins cli a : shots_decision cli (Some a) = (true, a).
Proof. destruct cli; reflexivity. Qed.
Lemma echo_policy_spec m provided shots :
  echo_enabled m provided shots = true <->
  m = EchoAll \/ ((m = EchoDefault \/ m = EchoAuto) /\ (provided = false \/ shots = 1)).
Proof.
  destruct m; cbn [echo_enabled]; rewrite ?orb_true_iff, ?negb_true_iff, ?Nat.eqb_eq.
  - split; [intros H; right; split; auto|intros [H|[_ H]]; [discriminate|exact H]].
  - split; [intros H; right; split; auto|intros [H|[_ H]]; [discriminate|exact H]].
  - split; auto.
  - split; [discriminate|intros [H|[[H|H] _]]; discriminate].
Qed.
