(* Model of the decision logic of src/bloch/update/update_manager.cpp
   (parseSemVer, compareSemVer, changeLabel, hasLatest, performSelfUpdate's decision,
   parseChecksum, maybePrintNotice / checkForUpdatesIfDue).  Definitions only. *)
From Coq Require Import List ZArith Ascii String Bool Lia.
Import ListNotations.
Local Open Scope Z_scope.

Definition INT_MAX : Z := 2147483647.

Definition is_digit (c : ascii) : bool :=
  let n := Z.of_nat (nat_of_ascii c) in (48 <=? n) && (n <=? 57).
Definition digit_val (c : ascii) : Z := Z.of_nat (nat_of_ascii c) - 48.

Fixpoint span_digits (s : list ascii) : list ascii * list ascii :=
  match s with
  | c :: r => if is_digit c then let (d, t) := span_digits r in (c :: d, t) else ([], s)
  | [] => ([], [])
  end.

Definition digits_value (ds : list ascii) : Z :=
  fold_left (fun acc c => acc * 10 + digit_val c) ds 0.

(* std::stoi on a non-empty run of decimal digits: the value, or None for std::out_of_range *)
Definition stoi (ds : list ascii) : option Z :=
  let v := digits_value ds in if v <=? INT_MAX then Some v else None.

Record semver := { major : Z; minor : Z; patch : Z; valid : bool }.
Definition sem0 : semver := {| major := 0; minor := 0; patch := 0; valid := false |}.

Definition set_comp (idx : nat) (v : Z) (s : semver) : semver :=
  match idx with
  | O => {| major := v; minor := minor s; patch := patch s; valid := true |}
  | S O => {| major := major s; minor := v; patch := patch s; valid := true |}
  | _ => {| major := major s; minor := minor s; patch := v; valid := true |}
  end.

(* std::isspace / std::isalnum in the "C" locale *)
Definition is_space (c : ascii) : bool :=
  let n := nat_of_ascii c in
  (Nat.eqb n 32 || Nat.eqb n 9 || Nat.eqb n 10 || Nat.eqb n 11 || Nat.eqb n 12 || Nat.eqb n 13)%bool.
Definition is_alnum (c : ascii) : bool :=
  let n := Z.of_nat (nat_of_ascii c) in
  ((48 <=? n) && (n <=? 57)) || ((65 <=? n) && (n <=? 90)) || ((97 <=? n) && (n <=? 122)).
Definition suffix_char (c : ascii) : bool :=
  is_alnum c || Ascii.eqb c "."%char || Ascii.eqb c "-"%char || Ascii.eqb c "+"%char.

(* isVersionSuffix: what may follow the numeric components - nothing, or '-'/'+' and suffix characters *)
Definition tail_ok (rest : list ascii) : bool :=
  match rest with
  | [] => true
  | c :: r => (Ascii.eqb c "-"%char || Ascii.eqb c "+"%char) && forallb suffix_char r
  end.

(* the while (idx < 3) loop; fuel = 3 - idx.  Anything that is not [v]MAJOR[.MINOR[.PATCH]][suffix] is sem0 *)
Fixpoint parse_loop (fuel : nat) (idx : nat) (s : list ascii) (acc : semver) : semver :=
  match fuel with
  | O => acc
  | S f =>
    let (ds, rest) := span_digits s in
    match ds with
    | [] => sem0                             (* a component is expected here *)
    | _ =>
      match stoi ds with
      | None => sem0                         (* overflow => unparsable *)
      | Some v =>
        let acc' := set_comp idx v acc in
        match rest with
        | c :: rest' =>
          if Ascii.eqb c "."%char then
            match f with
            | O => sem0                      (* a fourth component *)
            | S _ => parse_loop f (S idx) rest' acc'
            end
          else if tail_ok rest then acc' else sem0
        | [] => acc'
        end
      end
    end
  end.

Definition strip_v (s : list ascii) : list ascii :=
  match s with c :: r => if Ascii.eqb c "v"%char then r else s | [] => s end.

Fixpoint drop_spaces (s : list ascii) : list ascii :=
  match s with c :: r => if is_space c then drop_spaces r else s | [] => [] end.
(* trailing white space is dropped first *)
Definition rstrip (s : list ascii) : list ascii := rev (drop_spaces (rev s)).

Definition parse_semver (s : list ascii) : semver := parse_loop 3 0 (strip_v (rstrip s)) sem0.

Definition cmp3 (a b : semver) : Z :=
  if negb (major a =? major b) then (if major a <? major b then -1 else 1)
  else if negb (minor a =? minor b) then (if minor a <? minor b then -1 else 1)
  else if negb (patch a =? patch b) then (if patch a <? patch b then -1 else 1)
  else 0.

Definition compare_semver (cur lat : semver) : Z :=
  if negb (valid cur) || negb (valid lat) then 0 else cmp3 cur lat.

Inductive label := LNew | LMajor | LMinor | LPatch.
Definition change_label (cur lat : semver) : label :=
  if negb (valid cur) || negb (valid lat) then LNew
  else if major cur <? major lat then LMajor
  else if minor cur <? minor lat then LMinor
  else if patch cur <? patch lat then LPatch
  else LNew.

Definition has_latest (cur lat : list ascii) : bool :=
  let c := parse_semver cur in let l := parse_semver lat in
  if negb (valid c) || negb (valid l) then false else 0 <=? compare_semver c l.

(* what --update decides once the release tag is known *)
Inductive action := AlreadyLatest | Refuse | Install | PromptMajor.
Definition update_action (cur lat : list ascii) : action :=
  if has_latest cur lat then AlreadyLatest
  else
    let c := parse_semver cur in let l := parse_semver lat in
    if negb (valid c) || negb (valid l) then Refuse
    else if major c <? major l then PromptMajor else Install.

(* ---- checksums.txt ---- *)
Fixpoint split_on (p : ascii -> bool) (s : list ascii) (cur : list ascii) : list (list ascii) :=
  match s with
  | [] => [rev cur]
  | c :: r => if p c then rev cur :: split_on p r [] else split_on p r (c :: cur)
  end.

Definition nl (c : ascii) : bool := Nat.eqb (nat_of_ascii c) 10.
(* std::getline: a trailing newline does not start a further (empty) line *)
Definition lines (s : list ascii) : list (list ascii) :=
  match s with [] => [] | _ =>
  let ls := split_on nl s [] in
  match rev ls with [] :: r => rev r | _ => ls end end.

Definition words (s : list ascii) : list (list ascii) :=
  filter (fun w => match w with [] => false | _ => true end) (split_on is_space s []).

Definition strip_star (s : list ascii) : list ascii :=
  match s with c :: r => if Ascii.eqb c "*"%char then r else s | [] => s end.

Definition ascii_list_eqb (a b : list ascii) : bool :=
  if list_eq_dec ascii_dec a b then true else false.

(* the first blank-separated field *)
Fixpoint span_word (s : list ascii) : list ascii * list ascii :=
  match s with
  | [] => ([], [])
  | c :: r => if is_space c then ([], s) else let (w, t) := span_word r in (c :: w, t)
  end.

(* "<digest><blanks>[*]<name>": the name is the whole rest of the line (trailing blanks dropped), so that an entry for
   "<asset> (1)" or "<asset> old" is not taken for the asset's *)
Definition line_entry (l : list ascii) : option (list ascii * list ascii) :=
  let (h, rest) := span_word (drop_spaces l) in
  match h, rest with
  | _ :: _, _ :: _ =>
    match rstrip (strip_star (drop_spaces rest)) with
    | [] => None
    | n => Some (h, n)
    end
  | _, _ => None
  end.

Fixpoint find_checksum (ls : list (list ascii)) (asset : list ascii) : option (list ascii) :=
  match ls with
  | [] => None
  | l :: r =>
    match line_entry l with
    | Some (h, n) => if ascii_list_eqb n asset then Some h else find_checksum r asset
    | None => find_checksum r asset
    end
  end.

Definition parse_checksum (content asset : list ascii) : option (list ascii) :=
  find_checksum (lines content) asset.

(* checksumVerdict: what --update does with a downloaded archive whose SHA-256 is [actual] (lower-case hex), given
   the text of checksums.txt (None: it could not be downloaded) *)
Inductive verdict := Verified | NoChecksums | NoEntry | Mismatch.
Definition lower (c : ascii) : ascii :=
  let n := nat_of_ascii c in if (Nat.leb 65 n && Nat.leb n 90)%bool then ascii_of_nat (n + 32) else c.
Definition checksum_verdict (content : option (list ascii)) (asset actual : list ascii) : verdict :=
  match content with
  | None => NoChecksums
  | Some c =>
    match parse_checksum c asset with
    | None => NoEntry
    | Some h => if ascii_list_eqb (map lower h) actual then Verified else Mismatch
    end
  end.

(* ---- notice throttling (checkForUpdatesIfDue) ---- *)
Definition WINDOW : Z := 72 * 3600.

Record cache := { latestV : list ascii; lastChecked : Z; lastNotified : Z }.
Definition expired (tp now : Z) : bool := WINDOW <=? now - tp.

(* maybePrintNotice: returns (printed?, cache') *)
Definition maybe_notice (latest cur : list ascii) (now : Z) (c : cache) : bool * cache :=
  match latest with
  | [] => (false, c)
  | _ =>
    if negb (expired (lastNotified c) now) then (false, c)
    else
      let cs := parse_semver cur in let ls := parse_semver latest in
      if negb (valid cs) || negb (valid ls) then (false, c)
      else if 0 <=? compare_semver cs ls then (false, c)
      else (true, {| latestV := latest; lastChecked := lastChecked c; lastNotified := now |})
  end.

Record invocation := {
  now : Z;
  skip_env : bool;                    (* BLOCH_NO_UPDATE_CHECK / CI / BLOCH_OFFLINE set *)
  writable : bool;                    (* saveCache succeeds *)
  curv : list ascii;                  (* running version *)
  fetch : option (list ascii)         (* what the release lookup would return *)
}.

(* the tag the lookup returned, without surrounding white space (the cache file is line-oriented) *)
Definition trim (s : list ascii) : list ascii := drop_spaces (rstrip s).
(* a tag that is not a single line (after trimming) is no tag: like a failed lookup *)
Definition is_eol (c : ascii) : bool := (Nat.eqb (nat_of_ascii c) 10 || Nat.eqb (nat_of_ascii c) 13)%bool.
Definition fetched (i : invocation) : option (list ascii) :=
  match option_map trim (fetch i) with
  | Some t => if existsb is_eol t then None else Some t
  | None => None
  end.

(* on-disk cache: None = missing/unreadable.  Returns (notices printed, disk') *)
Definition check_for_updates (disk : option cache) (i : invocation) : list Z * option cache :=
  if skip_env i then ([], disk) else
  (* a cache that cannot be written: maybePrintNotice stores the time before it prints, so nothing is printed and
     nothing changes on disk *)
  if negb (writable i) then ([], disk) else
  let c0 := match disk with Some c => c | None => {| latestV := []; lastChecked := 0; lastNotified := 0 |} end in
  match disk with
  | Some _ =>
    if negb (expired (lastChecked c0) (now i)) then
      match latestV c0 with
      | [] => ([], disk)
      | _ => let (p, c1) := maybe_notice (latestV c0) (curv i) (now i) c0 in
             if p then ([now i], Some c1) else ([], disk)
      end
    else
      let '(p1, c1, disk1) :=
        match latestV c0 with
        | [] => (false, c0, disk)
        | _ => let (p, c1) := maybe_notice (latestV c0) (curv i) (now i) c0 in
               if p then (true, c1, Some c1) else (false, c1, disk)
        end in
      match fetched i with
      | None => ((if p1 then [now i] else []), disk1)
      | Some t =>
        let c2 := {| latestV := t; lastChecked := now i; lastNotified := lastNotified c1 |} in
        let (p2, c3) := maybe_notice t (curv i) (now i) c2 in
        ((if p1 then [now i] else []) ++ (if p2 then [now i] else []), Some c3)
      end
  | None =>
    match fetched i with
    | None => ([], disk)
    | Some t =>
      let c2 := {| latestV := t; lastChecked := now i; lastNotified := lastNotified c0 |} in
      let (p2, c3) := maybe_notice t (curv i) (now i) c2 in
      ((if p2 then [now i] else []), Some c3)
    end
  end.

Fixpoint run_invocations (disk : option cache) (is : list invocation) : list Z * option cache :=
  match is with
  | [] => ([], disk)
  | i :: r => let (n1, d1) := check_for_updates disk i in
              let (n2, d2) := run_invocations d1 r in (n1 ++ n2, d2)
  end.
