From Coq Require Import List ZArith Ascii String Bool Lia.
From Bloch Require Import Update.UpdateModel.
Import ListNotations.
Local Open Scope Z_scope.

(* ---------- ordering ---------- *)
Definition lex_lt (a b : semver) : Prop :=
  major a < major b \/ (major a = major b /\ (minor a < minor b \/ (minor a = minor b /\ patch a < patch b))).
Definition same_triple (a b : semver) : Prop :=
  major a = major b /\ minor a = minor b /\ patch a = patch b.

Ltac cmp_tac :=
  unfold cmp3, lex_lt, same_triple;
  repeat match goal with
  | |- context [?x =? ?y] => destruct (Z.eqb_spec x y)
  | |- context [?x <? ?y] => destruct (Z.ltb_spec x y)
  end; cbn [negb]; try lia.

Lemma cmp3_lt a b : cmp3 a b = -1 <-> lex_lt a b.
Proof. cmp_tac. Qed.
Lemma cmp3_eq a b : cmp3 a b = 0 <-> same_triple a b.
Proof. cmp_tac. Qed.
Lemma cmp3_gt a b : cmp3 a b = 1 <-> lex_lt b a.
Proof. cmp_tac. Qed.
Lemma cmp3_antisym a b : cmp3 a b = - cmp3 b a.
Proof. cmp_tac. Qed.
Lemma cmp3_range a b : cmp3 a b = -1 \/ cmp3 a b = 0 \/ cmp3 a b = 1.
Proof. cmp_tac. Qed.
Lemma lex_lt_trans a b c : lex_lt a b -> lex_lt b c -> lex_lt a c.
Proof. unfold lex_lt; lia. Qed.
Lemma lex_lt_irrefl a : ~ lex_lt a a.
Proof. unfold lex_lt; lia. Qed.
Lemma lex_trichotomy a b : lex_lt a b \/ same_triple a b \/ lex_lt b a.
Proof. unfold lex_lt, same_triple; lia. Qed.
Lemma cmp3_trans a b c : cmp3 a b = -1 -> cmp3 b c = -1 -> cmp3 a c = -1.
Proof. rewrite !cmp3_lt; apply lex_lt_trans. Qed.

(* ---------- the --update decision ---------- *)
Definition both_valid (cur lat : list ascii) : Prop :=
  valid (parse_semver cur) = true /\ valid (parse_semver lat) = true.

Lemma update_action_cases cur lat :
  (both_valid cur lat /\
     ((lex_lt (parse_semver cur) (parse_semver lat) /\
        update_action cur lat = (if major (parse_semver cur) <? major (parse_semver lat) then PromptMajor else Install))
      \/ (~ lex_lt (parse_semver cur) (parse_semver lat) /\ update_action cur lat = AlreadyLatest)))
  \/ (~ both_valid cur lat /\ update_action cur lat = Refuse).
Proof.
  unfold update_action, has_latest, compare_semver, both_valid.
  generalize (parse_semver cur) (parse_semver lat). intros c l.
  destruct (valid c) eqn:Hc, (valid l) eqn:Hl; cbn [negb orb].
  - left. split; [auto|].
    destruct (cmp3_range c l) as [H|[H|H]]; rewrite H; cbn.
    + left. split; [apply cmp3_lt; exact H|reflexivity].
    + right. split; [|reflexivity]. apply cmp3_eq in H. unfold lex_lt, same_triple in *. lia.
    + right. split; [|reflexivity]. apply cmp3_gt in H. unfold lex_lt in *. lia.
  - right. split; [intros [_ H]; discriminate|reflexivity].
  - right. split; [intros [H _]; discriminate|reflexivity].
  - right. split; [intros [H _]; discriminate|reflexivity].
Qed.

Lemma install_only_if_strictly_newer cur lat :
  update_action cur lat = Install \/ update_action cur lat = PromptMajor ->
  both_valid cur lat /\ lex_lt (parse_semver cur) (parse_semver lat).
Proof.
  intros H. destruct (update_action_cases cur lat) as [[Hv [[Hl He]|[Hl He]]]|[Hv He]];
    rewrite He in H; try (destruct H; discriminate); auto.
Qed.

Lemma already_latest_iff cur lat :
  update_action cur lat = AlreadyLatest <->
  both_valid cur lat /\ ~ lex_lt (parse_semver cur) (parse_semver lat).
Proof.
  destruct (update_action_cases cur lat) as [[Hv [[Hl He]|[Hl He]]]|[Hv He]]; rewrite He; split;
    try discriminate; try tauto;
    destruct (major (parse_semver cur) <? major (parse_semver lat)); try discriminate; tauto.
Qed.

Lemma refuse_iff_unparsable cur lat :
  update_action cur lat = Refuse <-> ~ both_valid cur lat.
Proof.
  destruct (update_action_cases cur lat) as [[Hv [[Hl He]|[Hl He]]]|[Hv He]]; rewrite He; split;
    try discriminate; try tauto;
    destruct (major (parse_semver cur) <? major (parse_semver lat)); try discriminate; tauto.
Qed.

(* ---------- parsing ---------- *)
Definition all_digits (ds : list ascii) : Prop := Forall (fun c => is_digit c = true) ds.
Definition stops (rest : list ascii) : Prop :=
  match rest with [] => True | c :: _ => is_digit c = false end.

Lemma span_digits_app ds rest :
  all_digits ds -> stops rest -> span_digits (ds ++ rest) = (ds, rest).
Proof.
  induction 1 as [|c ds Hc Hds IH]; intros Hr; cbn.
  - destruct rest as [|c r]; [reflexivity|]. cbn in Hr. cbn. rewrite Hr. reflexivity.
  - rewrite Hc. rewrite IH by assumption. reflexivity.
Qed.

Lemma digit_val_range c : is_digit c = true -> 0 <= digit_val c <= 9.
Proof. unfold is_digit, digit_val. lia. Qed.

Lemma digits_value_nonneg_gen ds : all_digits ds -> forall a, 0 <= a ->
  0 <= fold_left (fun acc c => acc * 10 + digit_val c) ds a.
Proof.
  induction 1 as [|c ds Hc _ IH]; intros a Ha; cbn; [lia|].
  apply IH. pose proof (digit_val_range c Hc). lia.
Qed.

Lemma stoi_range ds v : all_digits ds -> stoi ds = Some v -> 0 <= v <= INT_MAX.
Proof.
  unfold stoi. intros Hd. destruct (Z.leb_spec (digits_value ds) INT_MAX); [|discriminate].
  intros [= <-]. split; [|assumption]. apply digits_value_nonneg_gen; [assumption|lia].
Qed.

Definition dot : ascii := "."%char.
Lemma dot_not_digit : is_digit dot = false. Proof. reflexivity. Qed.

Lemma tail_ok_stops t : tail_ok t = true -> stops t.
Proof.
  destruct t as [|c r]; cbn; [trivial|]. intros H. apply andb_prop in H. destruct H as [H _].
  apply orb_prop in H. destruct H as [H|H]; apply Ascii.eqb_eq in H; subst c; reflexivity.
Qed.

Lemma tail_ok_not_dot c r : tail_ok (c :: r) = true -> Ascii.eqb c "."%char = false.
Proof.
  cbn. intros H. apply andb_prop in H. destruct H as [H _].
  apply orb_prop in H. destruct H as [H|H]; apply Ascii.eqb_eq in H; subst c; reflexivity.
Qed.

(* a full "a.b.c<suffix>" string parses to exactly the numeric triple *)
Lemma parse_full_triple d1 d2 d3 suffix :
  all_digits d1 -> all_digits d2 -> all_digits d3 ->
  d1 <> [] -> d2 <> [] -> d3 <> [] -> tail_ok suffix = true ->
  digits_value d1 <= INT_MAX -> digits_value d2 <= INT_MAX -> digits_value d3 <= INT_MAX ->
  parse_loop 3 0 (d1 ++ dot :: d2 ++ dot :: d3 ++ suffix) sem0 =
  {| major := digits_value d1; minor := digits_value d2; patch := digits_value d3; valid := true |}.
Proof.
  intros A1 A2 A3 N1 N2 N3 Ht L1 L2 L3.
  pose proof (tail_ok_stops _ Ht) as Hs.
  assert (Hst : forall d, digits_value d <= INT_MAX -> stoi d = Some (digits_value d)).
  { intros d Hd. unfold stoi. destruct (Z.leb_spec (digits_value d) INT_MAX); [reflexivity|lia]. }
  cbn [parse_loop].
  rewrite (span_digits_app d1) by (auto; exact dot_not_digit).
  destruct d1 as [|c1 d1]; [congruence|]. rewrite (Hst _ L1). cbn [set_comp].
  change (Ascii.eqb dot ".") with true. cbn iota.
  rewrite (span_digits_app d2) by (auto; exact dot_not_digit).
  destruct d2 as [|c2 d2]; [congruence|]. rewrite (Hst _ L2). cbn [set_comp major minor patch].
  change (Ascii.eqb dot ".") with true. cbn iota.
  rewrite (span_digits_app d3) by auto.
  destruct d3 as [|c3 d3]; [congruence|]. rewrite (Hst _ L3). cbn [set_comp major minor patch].
  destruct suffix as [|c s]; [reflexivity|].
  rewrite (tail_ok_not_dot _ _ Ht), Ht. reflexivity.
Qed.

(* ---------- exactly which strings are versions ---------- *)
(* [shape n s]: s is one to n dot-separated non-empty digit runs, each fitting an int, followed by nothing or by a
   '-'/'+' suffix of letters, digits, '.', '-', '+' *)
Inductive shape : nat -> list ascii -> Prop :=
| shape_last f ds tail : all_digits ds -> ds <> [] -> stoi ds <> None -> tail_ok tail = true -> shape (S f) (ds ++ tail)
| shape_more f ds r : all_digits ds -> ds <> [] -> stoi ds <> None -> shape (S f) r -> shape (S (S f)) (ds ++ dot :: r).

Lemma span_digits_spec s : let (ds, rest) := span_digits s in s = ds ++ rest /\ all_digits ds /\ stops rest.
Proof.
  induction s as [|c r IH]; cbn; [repeat split; constructor|].
  destruct (is_digit c) eqn:Hc.
  - destruct (span_digits r) as [d t]. destruct IH as (E & Hd & Hs). repeat split; [cbn; congruence|constructor; assumption|assumption].
  - repeat split; [constructor|]. cbn. exact Hc.
Qed.

Lemma set_comp_valid idx v a : valid (set_comp idx v a) = true.
Proof. destruct idx as [|[|idx]]; reflexivity. Qed.

Lemma parse_loop_valid_shape f : forall idx s acc, valid (parse_loop (S f) idx s acc) = true -> shape (S f) s.
Proof.
  induction f as [|f IH]; intros idx s acc H; cbn [parse_loop] in H;
    pose proof (span_digits_spec s) as Hsp; destruct (span_digits s) as [ds rest]; destruct Hsp as (-> & Hd & Hst);
    (destruct ds as [|d ds]; [discriminate|]);
    (destruct (stoi (d :: ds)) as [v|] eqn:Hv; [|discriminate]);
    (destruct rest as [|c rest]; [apply shape_last; [assumption|discriminate|congruence|reflexivity]|]);
    destruct (Ascii.eqb c "."%char) eqn:Hc.
  - discriminate.
  - destruct (tail_ok (c :: rest)) eqn:Ht; [|discriminate].
    apply shape_last; [assumption|discriminate|congruence|assumption].
  - apply Ascii.eqb_eq in Hc. subst c.
    apply shape_more; [assumption|discriminate|congruence|]. exact (IH _ _ _ H).
  - destruct (tail_ok (c :: rest)) eqn:Ht; [|discriminate].
    apply shape_last; [assumption|discriminate|congruence|assumption].
Qed.

Lemma shape_parse_loop_valid n s : shape n s -> forall idx acc, valid (parse_loop n idx s acc) = true.
Proof.
  induction 1 as [f ds tail Hd Hn Hs Ht | f ds r Hd Hn Hs Hsh IH]; intros idx acc; cbn [parse_loop].
  - rewrite (span_digits_app ds tail Hd (tail_ok_stops _ Ht)).
    destruct ds as [|d ds]; [congruence|]. destruct (stoi (d :: ds)) as [v|]; [|congruence].
    destruct tail as [|c t]; [apply set_comp_valid|].
    rewrite (tail_ok_not_dot _ _ Ht), Ht. apply set_comp_valid.
  - rewrite (span_digits_app ds (dot :: r) Hd dot_not_digit).
    destruct ds as [|d ds]; [congruence|]. destruct (stoi (d :: ds)) as [v|]; [|congruence].
    change (Ascii.eqb dot ".") with true. cbn iota. apply IH.
Qed.

(* a string is a version exactly when it has the shape: up to three components, then nothing or a suffix *)
Theorem parse_valid_iff_shape s : valid (parse_loop 3 0 s sem0) = true <-> shape 3 s.
Proof. split; [apply parse_loop_valid_shape | intros H; apply shape_parse_loop_valid; exact H]. Qed.

(* every component the parser stores is an int, and a result is valid only if a digit run was read *)
Definition comp_ok (s : semver) : Prop :=
  0 <= major s <= INT_MAX /\ 0 <= minor s <= INT_MAX /\ 0 <= patch s <= INT_MAX.

Lemma span_digits_all s : all_digits (fst (span_digits s)).
Proof.
  induction s as [|c r IH]; cbn; [constructor|].
  destruct (is_digit c) eqn:Hc; [|constructor].
  destruct (span_digits r) as [d t]; cbn in *. constructor; assumption.
Qed.

Lemma set_comp_ok idx v s : comp_ok s -> 0 <= v <= INT_MAX -> comp_ok (set_comp idx v s).
Proof. unfold comp_ok. destruct idx as [|[|idx]]; cbn; tauto. Qed.

Lemma sem0_ok : comp_ok sem0. Proof. unfold comp_ok, sem0, INT_MAX; cbn; lia. Qed.

Lemma parse_loop_ok fuel : forall idx s acc, comp_ok acc -> comp_ok (parse_loop fuel idx s acc).
Proof.
  induction fuel as [|f IH]; intros idx s acc Hacc; cbn [parse_loop]; [assumption|].
  pose proof (span_digits_all s) as Hall.
  destruct (span_digits s) as [ds rest]; cbn [fst] in Hall.
  destruct ds as [|d ds]; [apply sem0_ok|].
  destruct (stoi (d :: ds)) as [v|] eqn:Hv; [|apply sem0_ok].
  pose proof (stoi_range _ _ Hall Hv) as Hr.
  pose proof (set_comp_ok idx v acc Hacc Hr) as Hok.
  destruct rest as [|c rest]; [assumption|].
  destruct (Ascii.eqb c "."%char).
  - destruct f as [|f']; [apply sem0_ok|]. apply IH. assumption.
  - destruct (tail_ok (c :: rest)); [assumption|apply sem0_ok].
Qed.

Lemma parse_semver_components_int s : comp_ok (parse_semver s).
Proof. apply parse_loop_ok, sem0_ok. Qed.

(* overflow in the first component makes the string unparsable (no exception, no wrap) *)
Lemma parse_overflow_invalid ds rest :
  all_digits ds -> ds <> [] -> stops rest -> INT_MAX < digits_value ds ->
  valid (parse_loop 3 0 (ds ++ rest) sem0) = false.
Proof.
  intros Hd Hn Hs Hov. cbn [parse_loop]. rewrite span_digits_app by assumption.
  destruct ds as [|c ds]; [congruence|].
  unfold stoi. destruct (Z.leb_spec (digits_value (c :: ds)) INT_MAX); [lia|reflexivity].
Qed.

Lemma parse_no_digits_invalid s :
  stops s -> valid (parse_loop 3 0 s sem0) = false.
Proof.
  intros Hs. cbn [parse_loop]. destruct s as [|c r]; [reflexivity|]. cbn in Hs.
  cbn [span_digits]. rewrite Hs. reflexivity.
Qed.

(* ---------- checksums ---------- *)

(* ---------- the shape of a checksums.txt line ---------- *)
Definition blanks (s : list ascii) : Prop := forallb is_space s = true.

Lemma drop_spaces_decomp s : exists sp, s = sp ++ drop_spaces s /\ blanks sp.
Proof.
  induction s as [|c r IH]; cbn [drop_spaces].
  - exists []. split; reflexivity.
  - destruct (is_space c) eqn:E.
    + destruct IH as (sp & H1 & H2). exists (c :: sp). split; [cbn; congruence|].
      unfold blanks in *. cbn. rewrite E, H2. reflexivity.
    + exists []. split; reflexivity.
Qed.

Lemma span_word_decomp s : forall w t, span_word s = (w, t) -> s = w ++ t /\ forallb (fun c => negb (is_space c)) w = true.
Proof.
  induction s as [|c r IH]; cbn [span_word]; intros w t H.
  - inversion H. split; reflexivity.
  - destruct (is_space c) eqn:E.
    + inversion H. split; reflexivity.
    + destruct (span_word r) as [w1 t1]. inversion H; subst. destruct (IH w1 t eq_refl) as [H1 H2].
      split; [cbn; congruence|]. cbn. rewrite E, H2. reflexivity.
Qed.

Lemma rstrip_decomp s : exists sp, s = rstrip s ++ sp /\ blanks sp.
Proof.
  unfold rstrip. destruct (drop_spaces_decomp (rev s)) as (sp & H1 & H2).
  exists (rev sp). split.
  - rewrite <- rev_app_distr, <- H1, rev_involutive. reflexivity.
  - unfold blanks in *. rewrite forallb_forall in *. intros x Hx. apply H2. apply in_rev. assumption.
Qed.

Lemma strip_star_decomp s : exists st, s = st ++ strip_star s /\ (st = [] \/ st = ["*"%char]).
Proof.
  destruct s as [|c r]; cbn [strip_star].
  - exists []. split; [reflexivity|left; reflexivity].
  - destruct (Ascii.eqb c "*") eqn:E.
    + apply Ascii.eqb_eq in E. subst c. exists ["*"%char]. split; [reflexivity|right; reflexivity].
    + exists []. split; [reflexivity|left; reflexivity].
Qed.

(* what a line must look like for (h, n) to be its entry: blanks, the digest (no blank in it), at least one blank, an optional
   '*', then the name up to the end of the line but for trailing blanks - nothing of the line is left out of the name *)
Theorem line_entry_shape l h n :
  line_entry l = Some (h, n) ->
  exists sp1 sp2 st sp3,
    l = sp1 ++ h ++ sp2 ++ st ++ n ++ sp3 /\ blanks sp1 /\ blanks sp2 /\ sp2 <> [] /\ blanks sp3 /\
    (st = [] \/ st = ["*"%char]) /\ h <> [] /\ n <> [] /\ forallb (fun c => negb (is_space c)) h = true.
Proof.
  unfold line_entry. destruct (drop_spaces_decomp l) as (sp1 & Hl & Hb1).
  destruct (span_word (drop_spaces l)) as [w rest] eqn:Es.
  destruct (span_word_decomp _ _ _ Es) as [Hw Hns].
  destruct w as [|c w]; [discriminate|]. destruct rest as [|d rest]; [discriminate|].
  destruct (rstrip (strip_star (drop_spaces (d :: rest)))) as [|n0 ns] eqn:En; [discriminate|].
  intros [= <- <-].
  destruct (drop_spaces_decomp (d :: rest)) as (sp2 & Hr & Hb2).
  destruct (strip_star_decomp (drop_spaces (d :: rest))) as (st & Hst & Hstar).
  destruct (rstrip_decomp (strip_star (drop_spaces (d :: rest)))) as (sp3 & Hn & Hb3).
  rewrite En in Hn.
  exists sp1, sp2, st, sp3. split.
  - rewrite Hl at 1. rewrite Hw. rewrite Hr at 1. rewrite Hst at 1. rewrite Hn at 1.
    rewrite <- ?app_assoc. reflexivity.
  - split; [assumption|]. split; [assumption|]. split.
    + intros ->. cbn in Hr.
      (* the field ended at d, so d is a blank and drop_spaces consumed it *)
      assert (Hd : is_space d = true).
      { clear -Es. revert Es. generalize (drop_spaces l) as s. intros s. revert c w.
        induction s as [|x r IH]; cbn [span_word]; intros c w H; [discriminate|].
        destruct (is_space x) eqn:Ex; [discriminate|].
        destruct (span_word r) as [w1 t1] eqn:E1. inversion H; subst.
        destruct w as [|c2 w2].
        - destruct r as [|y r']; cbn [span_word] in E1; [discriminate|].
          destruct (is_space y) eqn:Ey; [inversion E1; subst; assumption|].
          destruct (span_word r'); discriminate.
        - eapply IH. reflexivity. }
      cbn [drop_spaces] in Hr. rewrite Hd in Hr.
      pose proof (f_equal (@List.length ascii) Hr) as Hlen. cbn in Hlen.
      destruct (drop_spaces_decomp rest) as (q & Hq & _). rewrite Hq in Hlen at 1. rewrite app_length in Hlen. lia.
    + split; [assumption|]. split; [assumption|]. split; [discriminate|]. split; [discriminate|]. assumption.
Qed.

Lemma ascii_list_eqb_eq a b : ascii_list_eqb a b = true <-> a = b.
Proof. unfold ascii_list_eqb. destruct (list_eq_dec ascii_dec a b); split; congruence. Qed.

Lemma find_checksum_sound ls asset h :
  find_checksum ls asset = Some h ->
  exists pre l post, ls = pre ++ l :: post /\ line_entry l = Some (h, asset) /\
    (forall l', In l' pre -> forall h', line_entry l' <> Some (h', asset)).
Proof.
  induction ls as [|l r IH]; cbn; [discriminate|].
  destruct (line_entry l) as [[h0 n]|] eqn:He.
  - destruct (ascii_list_eqb n asset) eqn:Hn.
    + intros [= <-]. apply ascii_list_eqb_eq in Hn. subst n.
      exists [], l, r. split; [reflexivity|]. split; [assumption|]. intros l' [].
    + intros H. destruct (IH H) as (pre & l1 & post & -> & Hl & Hpre).
      exists (l :: pre), l1, post. split; [reflexivity|]. split; [assumption|].
      intros l' [<-|Hin] h' Hc; [|eapply Hpre; eauto].
      rewrite He in Hc. injection Hc as _ ->.
      assert (ascii_list_eqb asset asset = true) by (apply ascii_list_eqb_eq; reflexivity). congruence.
  - intros H. destruct (IH H) as (pre & l1 & post & -> & Hl & Hpre).
    exists (l :: pre), l1, post. split; [reflexivity|]. split; [assumption|].
    intros l' [<-|Hin] h' Hc; [congruence|eapply Hpre; eauto].
Qed.

Lemma find_checksum_none ls asset :
  find_checksum ls asset = None <-> (forall l h, In l ls -> line_entry l <> Some (h, asset)).
Proof.
  induction ls as [|l r IH]; cbn.
  - split; [intros _ l h []|reflexivity].
  - destruct (line_entry l) as [[h0 n]|] eqn:He.
    + destruct (ascii_list_eqb n asset) eqn:Hn.
      * split; [discriminate|]. intros H. apply ascii_list_eqb_eq in Hn. subst n.
        exfalso. apply (H l h0); [left; reflexivity|assumption].
      * rewrite IH. split.
        -- intros H l' h [<-|Hin]; [|apply H; assumption].
           rewrite He. intros [= _ ->].
           assert (ascii_list_eqb asset asset = true) by (apply ascii_list_eqb_eq; reflexivity). congruence.
        -- intros H l' h Hin. apply H. right. assumption.
    + rewrite IH. split.
      * intros H l' h [<-|Hin]; [congruence|apply H; assumption].
      * intros H l' h Hin. apply H. right. assumption.
Qed.

(* an archive goes on to be installed only when checksums.txt was obtained, its first line naming exactly this asset
   carries a digest, and that digest (hex digits in either case) is the archive's *)
Lemma verified_only_against_the_listed_line content asset actual :
  checksum_verdict content asset actual = Verified ->
  exists c h pre l post, content = Some c /\ lines c = pre ++ l :: post /\ line_entry l = Some (h, asset) /\
    (forall l', In l' pre -> forall h', line_entry l' <> Some (h', asset)) /\ map lower h = actual.
Proof.
  unfold checksum_verdict. destruct content as [c|]; [|discriminate].
  unfold parse_checksum. destruct (find_checksum (lines c) asset) as [h|] eqn:E; [|discriminate].
  destruct (ascii_list_eqb (map lower h) actual) eqn:Eh; [|discriminate]. intros _.
  apply ascii_list_eqb_eq in Eh. apply find_checksum_sound in E. destruct E as (pre & l & post & E1 & E2 & E3).
  exists c, h, pre, l, post. auto.
Qed.


(* ---------- notice throttling ---------- *)
Definition ln (d : option cache) : Z := match d with Some c => lastNotified c | None => 0 end.

Lemma maybe_notice_spec latest cur t c p c' :
  maybe_notice latest cur t c = (p, c') ->
  (p = false /\ c' = c) \/
  (p = true /\ WINDOW <= t - lastNotified c /\ lastNotified c' = t /\
   both_valid cur latest /\ lex_lt (parse_semver cur) (parse_semver latest)).
Proof.
  unfold maybe_notice. destruct latest as [|l0 lr]; [intros [= <- <-]; auto|].
  remember (l0 :: lr) as latest.
  unfold expired. destruct (Z.leb_spec WINDOW (t - lastNotified c)); cbn [negb];
    [|intros [= <- <-]; auto].
  destruct (valid (parse_semver cur)) eqn:Hc, (valid (parse_semver latest)) eqn:Hl; cbn [negb orb];
    try (intros [= <- <-]; auto).
  unfold compare_semver. rewrite Hc, Hl. cbn [negb orb].
  destruct (cmp3_range (parse_semver cur) (parse_semver latest)) as [H1|[H1|H1]]; rewrite H1; cbn;
    intros [= <- <-]; auto.
  right. repeat split; auto. apply cmp3_lt; assumption.
Qed.

(* one invocation: at most one notice; a notice needs the window to have elapsed since the
   recorded one and leaves its own time recorded; otherwise the record is unchanged *)
Ltac mn_tac :=
  match goal with
  | |- context [maybe_notice ?l ?c ?t ?k] =>
      let p := fresh "p" in let c' := fresh "c" in let H := fresh "Hm" in
      destruct (maybe_notice l c t k) as [p c'] eqn:H; apply maybe_notice_spec in H;
      destruct H as [[-> ->]|(-> & ? & ? & _)]
  end.

Lemma check_step disk i ns disk' :
  check_for_updates disk i = (ns, disk') ->
  (ns = [] /\ ln disk' = ln disk) \/
  (ns = [now i] /\ skip_env i = false /\ WINDOW <= now i - ln disk /\ ln disk' = now i).
Proof.
  unfold check_for_updates. destruct (skip_env i) eqn:Hs; [intros [= <- <-]; auto|].
  destruct (writable i) eqn:Hw; cbn [negb]; [|intros [= <- <-]; auto].
  destruct disk as [c0|]; cbn [ln];
    [destruct (expired (lastChecked c0) (now i)); cbn [negb];
     destruct (latestV c0) as [|l0 lr] eqn:Hlv|];
    destruct (fetched i) as [t|]; repeat mn_tac; intros [= <- <-]; cbn [ln lastNotified app] in *;
    try (left; split; [reflexivity|congruence]);
    try (right; repeat split; solve [auto|congruence|lia]);
    try (exfalso; unfold WINDOW in *; lia).
Qed.

(* every notice in a history is at least WINDOW after the previous one *)
Fixpoint spaced_from (last : Z) (l : list Z) : Prop :=
  match l with [] => True | t :: r => WINDOW <= t - last /\ spaced_from t r end.
Definition spaced (l : list Z) : Prop :=
  match l with [] => True | t :: r => spaced_from t r end.

Lemma run_spaced_from is : forall disk ns disk',
  run_invocations disk is = (ns, disk') -> spaced_from (ln disk) ns.
Proof.
  induction is as [|i r IH]; intros disk ns disk'; cbn [run_invocations].
  - intros [= <- <-]. exact I.
  - destruct (check_for_updates disk i) as [n1 d1] eqn:H1.
    destruct (run_invocations d1 r) as [n2 d2] eqn:H2. intros [= <- <-].
    apply IH in H2. apply check_step in H1.
    destruct H1 as [[-> Hl]|(-> & _ & Hw & Hl)]; cbn [app spaced_from].
    + rewrite <- Hl. assumption.
    + rewrite Hl in H2. auto.
Qed.

Lemma spaced_from_spaced last l : spaced_from last l -> spaced l.
Proof. destruct l; cbn; tauto. Qed.

Lemma notices_spaced disk is : spaced (fst (run_invocations disk is)).
Proof.
  destruct (run_invocations disk is) as [ns d] eqn:H. cbn.
  eapply spaced_from_spaced, run_spaced_from; eauto.
Qed.

Lemma skip_env_silent disk i : skip_env i = true -> check_for_updates disk i = ([], disk).
Proof. unfold check_for_updates. intros ->. reflexivity. Qed.

Lemma unwritable_silent disk i : writable i = false -> check_for_updates disk i = ([], disk).
Proof. unfold check_for_updates. intros ->. destruct (skip_env i); reflexivity. Qed.

Lemma notice_implies_newer latest cur t c c' :
  maybe_notice latest cur t c = (true, c') ->
  both_valid cur latest /\ lex_lt (parse_semver cur) (parse_semver latest).
Proof.
  intros H. apply maybe_notice_spec in H. destruct H as [[H _]|(_ & _ & _ & H)]; [discriminate|exact H].
Qed.

(* ---------- whole seconds on disk, a finer clock in memory ---------- *)
(* times in milliseconds; the cache file keeps whole seconds.  Written rounded up, a stored time is never earlier than
   the moment it records, so a window measured from it is a window in real time; written truncated it is not. *)
Definition stored_up (t : Z) : Z := (t + 999) / 1000 * 1000.
Definition stored_down (t : Z) : Z := t / 1000 * 1000.

Lemma stored_up_spacing t1 t2 w : t2 - stored_up t1 >= w -> t2 - t1 >= w.
Proof. unfold stored_up. intros H. pose proof (Z.div_mod (t1 + 999) 1000 ltac:(lia)). pose proof (Z.mod_pos_bound (t1 + 999) 1000 ltac:(lia)). lia. Qed.

Lemma stored_down_refuted : exists t1 t2 w, t2 - stored_down t1 >= w /\ ~ (t2 - t1 >= w).
Proof. exists 1700000000900, 1700259200100, 259200000. vm_compute. split; [discriminate|]. intros H. apply H. reflexivity. Qed.

(* what a lookup contributes to the cache is a single line *)
Lemma fetched_single_line i t : fetched i = Some t -> existsb is_eol t = false.
Proof.
  unfold fetched. destruct (option_map trim (fetch i)) as [t0|]; [|discriminate].
  destruct (existsb is_eol t0) eqn:E; [discriminate|]. intros [= <-]. exact E.
Qed.
