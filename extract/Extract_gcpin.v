From Coq Require Import Extraction ExtrOcamlBasic ExtrOcamlString.
From Bloch Require Import Lang.GcPin.
Extraction "gcpin_model.ml" pin.
