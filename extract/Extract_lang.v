From Coq Require Import Extraction ExtrOcamlBasic ExtrOcamlString.
From Coq Require Import ZArith.
From Bloch Require Import Lang.Syntax Lang.Eval.
Extraction "lang_model.ml" run show_Z find_fn Z.add Z.mul Z.opp.
