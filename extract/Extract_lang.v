From Coq Require Import Extraction ExtrOcamlBasic ExtrOcamlString.
From Coq Require Import ZArith.
From Bloch Require Import Lang.Syntax Lang.Eval Lang.Typing Lang.ClassTyping.
Extraction "lang_model.ml" ccheck_program check_program run show_Z find_fn Z.add Z.mul Z.opp.
