From Coq Require Import Extraction ExtrOcamlBasic ExtrOcamlString.
From Bloch Require Import Lex.LexModel.
Extraction "lex_model.ml" lex.
