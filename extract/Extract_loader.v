From Coq Require Import Extraction ExtrOcamlBasic ExtrOcamlString.
From Bloch Require Import Loader.LoaderModel.
Extraction "loader_model.ml" load resolve_sym resolve_wild.
