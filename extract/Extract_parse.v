From Coq Require Import Extraction ExtrOcamlBasic ExtrOcamlString.
From Bloch Require Import Parse.PrattModel Parse.StmtModel.
Extraction "parse_model.ml" parse_expr render add_parens strip level ropen parse_stmt render_stmt type_ahead.
