From Coq Require Import Extraction ExtrOcamlBasic ExtrOcamlString.
From Bloch Require Import Sim.SimModel Sim.Qasm Sim.QasmParse Sim.EvalQ Tracked.Tracked.
Extraction "sim_model.ml" sim_init sim_run sim_step emit embed1 cx_spec gate_matrix apply1 cx_model evq_init ev_run ev_step parse_qasm op_wf shots_run aggregate shots_decision echo_enabled tab_total.
