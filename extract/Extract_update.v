From Coq Require Import Extraction ExtrOcamlBasic ExtrOcamlString.
From Bloch Require Import Update.UpdateModel Update.UpdateProofs.
Extraction "update_model.ml" parse_semver compare_semver has_latest update_action change_label
  parse_checksum checksum_verdict check_for_updates run_invocations stored_up.
