(* shared glue for the OCaml drivers *)
let chars_of_string (s : string) : char list = List.init (String.length s) (String.get s)
let string_of_chars (l : char list) : string = String.init (List.length l) (List.nth l)
let string_of_chars l = let b = Buffer.create 16 in List.iter (Buffer.add_char b) l; Buffer.contents b
let unhex (h : string) : string =
  if h = "-" then "" else
  String.init (String.length h / 2) (fun i -> Char.chr (int_of_string ("0x" ^ String.sub h (2*i) 2)))
let hex (s : string) : string =
  if s = "" then "-" else String.concat "" (List.map (fun c -> Printf.sprintf "%02x" (Char.code c)) (chars_of_string s))
let split_ws (s : string) : string list = List.filter (fun x -> x <> "") (String.split_on_char ' ' s)
let iter_lines (f : string -> unit) (ic : in_channel) =
  try while true do f (input_line ic) done with End_of_file -> ()
