(* shared glue for the OCaml drivers: Coq Z/N/nat <-> OCaml, hex strings <-> char list *)
let rec pos_of_int (n : int) : positive =
  if n = 1 then XH else if n land 1 = 0 then XO (pos_of_int (n lsr 1)) else XI (pos_of_int (n lsr 1))
let z_of_int (n : int) : z = if n = 0 then Z0 else if n > 0 then Zpos (pos_of_int n) else Zneg (pos_of_int (-n))
let rec int_of_pos (p : positive) : int = match p with XH -> 1 | XO q -> 2 * int_of_pos q | XI q -> 2 * int_of_pos q + 1
let int_of_z (x : z) : int = match x with Z0 -> 0 | Zpos p -> int_of_pos p | Zneg p -> - (int_of_pos p)
let chars_of_string (s : string) : char list = List.init (String.length s) (String.get s)
let string_of_chars (l : char list) : string = String.init (List.length l) (List.nth l)
let string_of_chars l = let b = Buffer.create 16 in List.iter (Buffer.add_char b) l; Buffer.contents b
let unhex (h : string) : string =
  if h = "-" then "" else
  String.init (String.length h / 2) (fun i -> Char.chr (int_of_string ("0x" ^ String.sub h (2*i) 2)))
let hex (s : string) : string =
  if s = "" then "-" else String.concat "" (List.map (fun c -> Printf.sprintf "%02x" (Char.code c)) (chars_of_string s))
let split_ws (s : string) : string list = List.filter (fun x -> x <> "") (String.split_on_char ' ' s)
let iter_lines (f : string -> unit) (ic : in_channel) =
  try while true do f (input_line ic) done with End_of_file -> ()
