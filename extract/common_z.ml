(* shared glue for the OCaml drivers: Coq Z/N/nat <-> OCaml, hex strings <-> char list *)
let rec pos_of_int (n : int) : positive =
  if n = 1 then XH else if n land 1 = 0 then XO (pos_of_int (n lsr 1)) else XI (pos_of_int (n lsr 1))
let z_of_int (n : int) : z = if n = 0 then Z0 else if n > 0 then Zpos (pos_of_int n) else Zneg (pos_of_int (-n))
let rec int_of_pos (p : positive) : int = match p with XH -> 1 | XO q -> 2 * int_of_pos q | XI q -> 2 * int_of_pos q + 1
let int_of_z (x : z) : int = match x with Z0 -> 0 | Zpos p -> int_of_pos p | Zneg p -> - (int_of_pos p)
