(* one heap graph per line, as hook H7 logs it:  GC n | i:marked:obs:c1,c2 ... | P ... | S ...
   prints the model's kept set for that graph (seeds = the observable objects and the objects reached from the roots), sorted *)
let rec nat_of_int n = if n <= 0 then O else S (nat_of_int (n - 1))
let rec int_of_nat = function O -> 0 | S n -> 1 + int_of_nat n
let () =
  let ic = open_in Sys.argv.(1) in
  iter_lines (fun line ->
    match String.split_on_char '|' line with
    | hd :: graph :: _ ->
      let n = (match split_ws hd with ["GC"; n] -> int_of_string n | _ -> failwith "head") in
      let ch = Array.make n [] and mk = Array.make n false and ob = Array.make n false in
      List.iter (fun item ->
        match String.split_on_char ':' item with
        | [i; m; o; cs] ->
          let i = int_of_string i in
          mk.(i) <- (m = "1"); ob.(i) <- (o = "1");
          ch.(i) <- List.map int_of_string (List.filter (fun x -> x <> "") (String.split_on_char ',' cs))
        | _ -> failwith ("item " ^ item)) (split_ws graph);
      let nats = Array.init n nat_of_int in
      let children l = let i = int_of_nat l in if i < n then List.map (fun c -> nats.(c)) ch.(i) else [] in
      let nodes = Array.to_list nats in
      let seeds = List.filter (fun l -> ob.(int_of_nat l) || mk.(int_of_nat l)) nodes in
      (match pin children nodes (nat_of_int (n + 1)) seeds with
       | None -> print_endline "none"
       | Some q -> print_endline (String.concat " " ("Q" :: List.map string_of_int (List.sort compare (List.map int_of_nat q)))))
    | _ -> failwith ("bad line: " ^ line)) ic
