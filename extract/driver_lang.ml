(* glue: s-expression programs -> Coq AST; float ops = IEEE doubles; one result line per case *)
type sx = A of string | L of sx list
let parse_sx (s : string) : sx =
  let n = String.length s in
  let pos = ref 0 in
  let skip () = while !pos < n && s.[!pos] = ' ' do incr pos done in
  let rec go () : sx =
    skip ();
    if s.[!pos] = '(' then begin
      incr pos; let items = ref [] in
      let rec loop () = skip (); if s.[!pos] = ')' then incr pos else (items := go () :: !items; loop ()) in
      loop (); L (List.rev !items) end
    else begin
      let st = !pos in
      while !pos < n && s.[!pos] <> ' ' && s.[!pos] <> '(' && s.[!pos] <> ')' do incr pos done;
      A (String.sub s st (!pos - st)) end in
  go ()
let cs = chars_of_string
let sc = string_of_chars
(* arbitrary-size decimal -> Z using the extracted Z arithmetic *)
let z_of_string (s : string) : z =
  let neg = String.length s > 0 && s.[0] = '-' in
  let d = if neg then String.sub s 1 (String.length s - 1) else s in
  let ten = z_of_int 10 in
  let r = ref Z0 in
  String.iter (fun c -> r := Z.add (Z.mul !r ten) (z_of_int (Char.code c - 48))) d;
  if neg then Z.opp !r else !r
let string_of_z (x : z) : string = sc (show_Z x)
exception Undoc
let fo : float fops = {
  fadd = ( +. ); fsub = ( -. ); fmul = ( *. ); fdiv = ( /. ); fneg = (fun x -> -. x);
  feqb = (fun a b -> a = b); fltb = (fun a b -> a < b); fleb = (fun a b -> a <= b);
  f_of_Z = (fun x -> float_of_string (string_of_z x));
  f_trunc = (fun f ->
    if Float.is_nan f || Float.abs f >= 9.3e18 then z_of_string "99999999999999999999"   (* out of every integer range *)
    else z_of_string (Printf.sprintf "%.0f" (Float.trunc f)));
  f_show = (fun f -> cs (if Float.is_integer f then Printf.sprintf "%.1f" f else Printf.sprintf "%g" f));
  f_show_elem = (fun f -> cs (Printf.sprintf "%g" f)) }
let rec nat_of_int n = if n <= 0 then O else S (nat_of_int (n - 1))
let rec ty_of (x : sx) : ty =
  match x with
  | A "int" -> TInt | A "long" -> TLong | A "float" -> TFloat | A "bit" -> TBit | A "bool" -> TBool
  | A "char" -> TChar | A "str" -> TStr | A "void" -> TVoid
  | L [A "arr"; t] -> TArr (ty_of t)
  | L [A "cls"; A c] -> TClass (cs c)
  | _ -> failwith "bad type"
let binops = [("+",OAdd);("-",OSub);("*",OMul);("/",ODiv);("%",OMod);("<",OLt);("<=",OLe);(">",OGt);(">=",OGe);("==",OEq);("!=",ONe);
              ("&&",OAnd);("||",OOr);("&",OBAnd);("|",OBOr);("^",OBXor)]
let unops = [("-",UNeg);("!",UNot);("~",UBNot)]
let rec expr_of (x : sx) : expr =
  match x with
  | L [A "i"; A n] -> ELit (LInt (z_of_string n))
  | L [A "l"; A n] -> ELit (LLong (z_of_string n))
  | L [A "f"; A n; A p] -> ELit (LFloat (z_of_string n, nat_of_int (int_of_string p)))
  | L [A "b"; A n] -> ELit (LBit (n = "1"))
  | L [A "B"; A n] -> ELit (LBool (n = "1"))
  | L [A "c"; A h] -> ELit (LChar (unhex h).[0])
  | L [A "s"; A h] -> ELit (LStr (cs (unhex h)))
  | L [A "v"; A n] -> EVar (cs n)
  | L [A "bin"; A o; a; b] -> EBin (List.assoc o binops, expr_of a, expr_of b)
  | L [A "un"; A o; a] -> EUn (List.assoc o unops, expr_of a)
  | L [A "cast"; t; a] -> ECast (ty_of t, expr_of a)
  | L [A "idx"; a; i] -> EIndex (expr_of a, expr_of i)
  | L (A "arr" :: es) -> EArr (List.map expr_of es)
  | L (A "call" :: A f :: args) -> ECall (cs f, List.map expr_of args)
  | L [A "post"; A n; A o] -> EPost (cs n, o = "++")
  | L [A "asg"; A n; a] -> EAssign (cs n, expr_of a)
  | L (A "new" :: A c :: args) -> ENew (cs c, List.map expr_of args)
  | L [A "fld"; a; A f] -> EField (expr_of a, cs f)
  | L [A "this"] -> EThis
  | L [A "null"] -> ENull
  | L (A "mcall" :: a :: A m :: args) -> EMCall (expr_of a, cs m, List.map expr_of args)
  | L (A "super" :: A m :: args) -> ESuperCall (cs m, List.map expr_of args)
  | L (A "scall" :: A c :: A m :: args) -> ESCall (cs c, cs m, List.map expr_of args)
  | L [A "sfld"; A c; A f] -> ESField (cs c, cs f)
  | L [A "fset"; a; A f; v] -> EFieldSet (expr_of a, cs f, expr_of v)
  | L [A "sfset"; A c; A f; v] -> ESFieldSet (cs c, cs f, expr_of v)
  | _ -> failwith "bad expr"
let opt f (x : sx) = match x with A "-" -> None | _ -> Some (f x)
let rec stmt_of (x : sx) : stmt =
  match x with
  | L [A "decl"; A fin; t; A n; e] -> SDecl (fin = "1", ty_of t, cs n, opt expr_of e)
  | L [A "declarr"; t; A n; sz; init] -> SDeclArr (ty_of t, cs n, opt expr_of sz, opt expr_of init)
  | L [A "set"; A n; e] -> SAssign (cs n, expr_of e)
  | L [A "aset"; A n; i; e] -> SArrAssign (cs n, expr_of i, expr_of e)
  | L [A "if"; c; a; b] -> SIf (expr_of c, stmt_of a, opt stmt_of b)
  | L [A "tern"; c; a; b] -> STern (expr_of c, stmt_of a, stmt_of b)
  | L [A "while"; c; b] -> SWhile (expr_of c, stmt_of b)
  | L [A "for"; i; c; s; b] -> SFor (opt stmt_of i, opt expr_of c, opt stmt_of s, stmt_of b)
  | L [A "echo"; e] -> SEcho (expr_of e)
  | L [A "ret"; e] -> SReturn (opt expr_of e)
  | L [A "expr"; e] -> SExpr (expr_of e)
  | L (A "block" :: ss) -> SBlock (List.map stmt_of ss)
  | L [A "destroy"; e] -> SDestroy (expr_of e)
  | _ -> failwith "bad stmt"
let fn_of (x : sx) : fdecl =
  match x with
  | L [A "fn"; A name; ret; L ps; L body] ->
      { fn_name = cs name; fn_ret = ty_of ret;
        fn_params = List.map (function L [t; A n] -> (ty_of t, cs n) | _ -> failwith "bad param") ps;
        fn_body = List.map stmt_of body }
  | _ -> failwith "bad fn"
let params_of ps = List.map (function L [t; A n] -> (ty_of t, cs n) | _ -> failwith "bad param") ps
let vis_of = function "prot" -> VProt | "priv" -> VPriv | _ -> VPub
let field_of (x : sx) : field =
  match x with
  | L [A "field"; A st; A fin; t; A n; init; A v] ->
      { fd_static = (st = "1"); fd_final = (fin = "1"); fd_ty = ty_of t; fd_name = cs n; fd_init = opt expr_of init; fd_vis = vis_of v }
  | _ -> failwith "bad field"
let ctor_of (x : sx) : ctor =
  match x with
  | L [A "ctor"; L ps; sup; L body; A d; A v] ->
      { ct_vis = vis_of v; ct_params = params_of ps;
        ct_super = (match sup with A "-" -> None | L (A "sup" :: es) -> Some (List.map expr_of es) | _ -> failwith "bad super");
        ct_body = List.map stmt_of body; ct_default = (d = "1") }
  | _ -> failwith "bad ctor"
let meth_of (x : sx) : meth =
  match x with
  | L [A "meth"; A n; L ps; ret; L body; A st; A vi; A v] ->
      { md_vis = vis_of v; md_name = cs n; md_params = params_of ps; md_ret = ty_of ret; md_body = List.map stmt_of body;
        md_static = (st = "1"); md_virtual = (vi = "1") }
  | _ -> failwith "bad meth"
let class_of (x : sx) : cdecl =
  match x with
  | L [A "class"; A n; A b; L (A "fields" :: fs); L (A "ctors" :: cts); L (A "meths" :: ms); dt; A kd] ->
      { cd_kind = (match kd with "abstract" -> KAbstract | "static" -> KStatic | _ -> KNormal); cd_name = cs n; cd_base = (if b = "-" then None else Some (cs b)); cd_fields = List.map field_of fs;
        cd_ctors = List.map ctor_of cts; cd_meths = List.map meth_of ms;
        cd_dtor = (match dt with A "-" -> None | L (A "dtor" :: ss) -> Some (List.map stmt_of ss) | _ -> failwith "bad dtor") }
  | _ -> failwith "bad class"
let prog_of (x : sx) : program =
  match x with
  | L [A "prog"; L (A "classes" :: cs_); L (A "fns" :: fs)] -> { p_classes = List.map class_of cs_; p_fns = List.map fn_of fs }
  | L (A "prog" :: fs) -> { p_classes = []; p_fns = List.map fn_of fs }
  | _ -> failwith "bad prog"
let err_s (e : rerr) : string =
  match e with
  | RDivZero -> "divzero" | RModZero -> "modzero"
  | RIndex (i, n) -> Printf.sprintf "index:%s:%s" (string_of_z i) (string_of_z n)
  | RNull -> "null" | RBitLen -> "bitlen" | RNegSize -> "negsize" | RInitLen -> "initlen"
  | RUndoc w -> "undoc:" ^ hex (sc w) | RStuck w -> "stuck:" ^ hex (sc w)
let () =
  iter_lines (fun line ->
    match split_ws line with
    | "run" :: fuel :: _ ->
        let i = String.index_from line 4 ' ' in
        let src = String.sub line (i + 1) (String.length line - i - 1) in
        (try
          let p = prog_of (parse_sx src) in
          let (out, oc) = run fo (nat_of_int (int_of_string fuel)) p in
          let st = match oc with Finished -> "ok" | Failed e -> "err " ^ err_s e | Diverged -> "fuel" in
          Printf.printf "%s |%s\n" st (String.concat "" (List.map (fun l -> " " ^ hex (sc l)) out))
        with Failure m -> Printf.printf "bad %s\n" m | Not_found -> print_endline "bad notfound"
           (* the extracted evaluator is not tail recursive: a program building very long strings or running very deep
              exhausts the native stack; reported like exhausted fuel (no verdict) *)
           | Stack_overflow -> print_endline "fuel |")
    | "ccheck" :: _ ->
        let src = String.sub line 7 (String.length line - 7) in
        (try
          let p = prog_of (parse_sx src) in
          print_endline (if ccheck_program p then "accept" else "reject")
        with Failure m -> Printf.printf "bad %s\n" m | Not_found -> print_endline "bad notfound")
    | "check" :: _ ->
        let src = String.sub line 6 (String.length line - 6) in
        (try
          let p = prog_of (parse_sx src) in
          print_endline (if check_program p then "accept" else "reject")
        with Failure m -> Printf.printf "bad %s\n" m | Not_found -> print_endline "bad notfound")
    | _ -> print_endline "bad command") stdin
