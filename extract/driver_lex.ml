let rec int_of_nat = function O -> 0 | S n -> 1 + int_of_nat n
let () =
  let ic = open_in Sys.argv.(1) in
  iter_lines (fun line ->
    match split_ws line with
    | ["lex"; h] ->
      (match lex (chars_of_string (unhex h)) with
       | LexOk (ts, _) ->
         print_endline (String.concat " " (List.map (fun t ->
           Printf.sprintf "%s:%s:%d:%d" (string_of_chars t.ttype) (hex (string_of_chars t.ttext)) (int_of_nat t.tline) (int_of_nat t.tcol)) ts))
       | LexFail (LexError (l, c, m)) -> Printf.printf "ERR %d %d %s\n" (int_of_nat l) (int_of_nat c) (hex (string_of_chars m))
       | LexFuel -> print_endline "FUEL")
    | [] -> ()
    | _ -> failwith ("bad line: " ^ line)) ic
