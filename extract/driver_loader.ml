let cs = chars_of_string
let sc = string_of_chars
let split c s = if s = "" || s = "-" then [] else String.split_on_char c s
let path_of s : char list list = List.map cs (split '/' s)
let path_s (p : char list list) = String.concat "/" (List.map sc p)
let () =
  let ic = open_in Sys.argv.(1) in
  iter_lines (fun line ->
    match split_ws line with
    | "load" :: cwd :: entry :: search :: files ->
      let fs = List.map (fun f ->
        match String.split_on_char '@' f with
        | [p; pkg; mains; imps] ->
          let imports = List.map (fun i ->
            match String.split_on_char ':' i with
            | ["S"; q] -> let parts = split '.' q in
                          let rec sp = function [x] -> ([], x) | x :: r -> let (a, b) = sp r in (x :: a, b) | [] -> ([], "") in
                          let (pk, sym) = sp parts in ISym (List.map cs pk, cs sym)
            | ["W"; q] -> IWild (List.map cs (split '.' q))
            | _ -> failwith "import") (split ',' imps) in
          (path_of p, { fpkg = List.map cs (split '.' pkg); fimports = imports; fmains = (let rec n k = if k = 0 then O else S (n (k - 1)) in n (int_of_string mains)) })
        | _ -> failwith ("file " ^ f)) files in
      let cfg = { search = List.map path_of (split ';' search); cwd = path_of cwd } in
      (match load fs cfg (path_of entry) with
       | Inl order -> print_endline ("ok " ^ String.concat " " (List.map path_s order))
       | Inr e -> print_endline ("err " ^ (match e with ECycle -> "cycle" | ENotFound -> "notfound" | EPackage -> "package" | EOpen -> "open"
                                                        | EMainCount -> "maincount" | EFuel -> "FUEL")))
    | [] -> ()
    | _ -> failwith ("bad line " ^ line)) ic
