(* glue: s-expressions <-> Coq expr, tokens -> source text *)
type sx = A of string | L of sx list
let parse_sx (s : string) : sx =
  let n = String.length s in
  let pos = ref 0 in
  let rec skip () = while !pos < n && s.[!pos] = ' ' do incr pos done in
  let rec go () : sx =
    skip ();
    if s.[!pos] = '(' then begin
      incr pos; let items = ref [] in
      let rec loop () = skip (); if s.[!pos] = ')' then incr pos else (items := go () :: !items; loop ()) in
      loop (); L (List.rev !items) end
    else begin
      let st = !pos in
      while !pos < n && s.[!pos] <> ' ' && s.[!pos] <> '(' && s.[!pos] <> ')' do incr pos done;
      A (String.sub s st (!pos - st)) end in
  go ()
let cs = chars_of_string
let sc = string_of_chars
let binops = [("||",OrOr);("&&",AndAnd);("|",BOr);("^",BXor);("&",BAnd);("==",EqEq);("!=",NotEq);(">",Gt);("<",Lt);(">=",Ge);("<=",Le);
              ("+",Add);("-",Sub);("*",Mul);("/",Div);("%",Mod)]
let binop_of s = List.assoc s binops
let binop_s b = fst (List.find (fun (_, x) -> x = b) binops)
let preops = [("-",PNeg);("!",PNot);("~",PBNot)]
let prims = [("int",TyInt);("float",TyFloat);("bit",TyBit);("long",TyLong);("char",TyChar);("string",TyString);("qubit",TyQubit);("boolean",TyBoolean);("void",TyVoid)]
let prim_s p = fst (List.find (fun (_, x) -> x = p) prims)
let rec expr_of (x : sx) : expr =
  match x with
  | L [A "lit"; A k; A t] -> ELit (cs k, cs (unhex t))
  | L [A "null"] -> ENull | L [A "var"; A n] -> EVar (cs n) | L [A "this"] -> EThis | L [A "super"] -> ESuper
  | L [A "measure"; e] -> EMeasure (expr_of e)
  | L (A "new" :: A c :: args) -> ENew (cs c, List.map expr_of args)
  | L (A "arr" :: es) -> EArr (List.map expr_of es)
  | L [A "paren"; e] -> EParen (expr_of e)
  | L [A "cast"; A p; e] -> ECast (List.assoc p prims, expr_of e)
  | L [A "un"; A o; e] -> EUn (List.assoc o preops, expr_of e)
  | L [A "bin"; A o; l; r] -> EBin (binop_of o, expr_of l, expr_of r)
  | L [A "post"; A o; e] -> EPost ((if o = "++" then PInc else PDec), expr_of e)
  | L (A "call" :: f :: args) -> ECall (expr_of f, List.map expr_of args)
  | L [A "index"; c; i] -> EIndex (expr_of c, expr_of i)
  | L [A "member"; o; A m] -> EMember (expr_of o, cs m)
  | L [A "assign"; A n; v] -> EAssign (cs n, expr_of v)
  | L [A "arrassign"; c; i; v] -> EArrAssign (expr_of c, expr_of i, expr_of v)
  | L [A "memassign"; o; A m; v] -> EMemAssign (expr_of o, cs m, expr_of v)
  | _ -> failwith "bad sexp"
let rec sx_of (e : expr) : string =
  let l xs = "(" ^ String.concat " " xs ^ ")" in
  match e with
  | ELit (k, t) -> l ["lit"; sc k; hex (sc t)]
  | ENull -> "(null)" | EVar n -> l ["var"; sc n] | EThis -> "(this)" | ESuper -> "(super)"
  | EMeasure e -> l ["measure"; sx_of e]
  | ENew (c, args) -> l ("new" :: sc c :: List.map sx_of args)
  | EArr es -> l ("arr" :: List.map sx_of es)
  | EParen e -> l ["paren"; sx_of e]
  | ECast (p, e) -> l ["cast"; prim_s p; sx_of e]
  | EUn (o, e) -> l ["un"; fst (List.find (fun (_, x) -> x = o) preops); sx_of e]
  | EBin (o, a, b) -> l ["bin"; binop_s o; sx_of a; sx_of b]
  | EPost (o, e) -> l ["post"; (if o = PInc then "++" else "--"); sx_of e]
  | ECall (f, args) -> l ("call" :: sx_of f :: List.map sx_of args)
  | EIndex (c, i) -> l ["index"; sx_of c; sx_of i]
  | EMember (o, m) -> l ["member"; sx_of o; sc m]
  | EAssign (n, v) -> l ["assign"; sc n; sx_of v]
  | EArrAssign (c, i, v) -> l ["arrassign"; sx_of c; sx_of i; sx_of v]
  | EMemAssign (o, m, v) -> l ["memassign"; sx_of o; sc m; sx_of v]
(* statements *)
let opt_expr = function A "-" -> None | x -> Some (expr_of x)
let dim_of = function L [A "none"] -> ANone | L [A "lit"; A t] -> ALit (cs t) | L [A "expr"; e] -> AExpr (expr_of e) | _ -> failwith "dim"
let ty_of = function
  | L (A "ty" :: b :: dims) ->
    let base = (match b with L [A "cls"; A n] -> (match String.split_on_char '.' n with f :: more -> BCls (cs f, List.map cs more) | [] -> failwith "cls") | A p -> BPrim (List.assoc p prims) | _ -> failwith "base") in
    { tbase_of = base; tdims = List.map dim_of dims }
  | _ -> failwith "ty"
let b01 = function "1" -> true | _ -> false
let rec stmt_of (x : sx) : stmt =
  match x with
  | L (A "block" :: ss) -> SBlock (List.map stmt_of ss)
  | L [A "decl"; A f; A t; ty; A n; i] -> SDecl (b01 f, b01 t, ty_of ty, cs n, opt_expr i)
  | L [A "return"; e] -> SReturn (opt_expr e)
  | L [A "if"; c; L (A "block" :: th); A "-"] -> SIf (expr_of c, List.map stmt_of th, None)
  | L [A "if"; c; L (A "block" :: th); L (A "block" :: el)] -> SIf (expr_of c, List.map stmt_of th, Some (List.map stmt_of el))
  | L [A "for"; i; c; st; L (A "block" :: b)] ->
    let init = (match i with
      | L [A "none"] -> FNone
      | L [A "fdecl"; A f; ty; A n; e] -> FDecl (b01 f, ty_of ty, cs n, opt_expr e)
      | L [A "fexpr"; e] -> FExpr (expr_of e)
      | _ -> failwith "finit") in
    SFor (init, expr_of c, expr_of st, List.map stmt_of b)
  | L [A "while"; c; L (A "block" :: b)] -> SWhile (expr_of c, List.map stmt_of b)
  | L [A "echo"; e] -> SEcho (expr_of e) | L [A "reset"; e] -> SReset (expr_of e)
  | L [A "smeasure"; e] -> SMeasure (expr_of e) | L [A "destroy"; e] -> SDestroy (expr_of e)
  | L [A "tern"; c; a; b] -> STern (expr_of c, stmt_of a, stmt_of b)
  | L [A "sassign"; A n; e] -> SAssign (cs n, expr_of e)
  | L [A "sexpr"; e] -> SExpr (expr_of e)
  | _ -> failwith "bad stmt sexp"
let sx_opt = function None -> "-" | Some e -> sx_of e
let sx_dim = function ANone -> "(none)" | ALit t -> "(lit " ^ sc t ^ ")" | AExpr e -> "(expr " ^ sx_of e ^ ")"
let sx_ty t = "(ty " ^ (match t.tbase_of with BPrim p -> prim_s p | BCls (n, more) -> "(cls " ^ String.concat "." (sc n :: List.map sc more) ^ ")") ^ String.concat "" (List.map (fun d -> " " ^ sx_dim d) t.tdims) ^ ")"
let b10 b = if b then "1" else "0"
let rec sx_stmt (s : stmt) : string =
  let l xs = "(" ^ String.concat " " xs ^ ")" in
  let blk ss = l ("block" :: List.map sx_stmt ss) in
  match s with
  | SBlock ss -> blk ss
  | SDecl (f, t, ty, n, i) -> l ["decl"; b10 f; b10 t; sx_ty ty; sc n; sx_opt i]
  | SReturn e -> l ["return"; sx_opt e]
  | SIf (c, th, el) -> l ["if"; sx_of c; blk th; (match el with None -> "-" | Some e -> blk e)]
  | SFor (i, c, st, b) ->
    let si = (match i with FNone -> "(none)" | FDecl (f, ty, n, e) -> l ["fdecl"; b10 f; sx_ty ty; sc n; sx_opt e] | FExpr e -> l ["fexpr"; sx_of e]) in
    l ["for"; si; sx_of c; sx_of st; blk b]
  | SWhile (c, b) -> l ["while"; sx_of c; blk b]
  | SEcho e -> l ["echo"; sx_of e] | SReset e -> l ["reset"; sx_of e] | SMeasure e -> l ["smeasure"; sx_of e] | SDestroy e -> l ["destroy"; sx_of e]
  | STern (c, a, b) -> l ["tern"; sx_of c; sx_stmt a; sx_stmt b]
  | SAssign (n, e) -> l ["sassign"; sc n; sx_of e]
  | SExpr e -> l ["sexpr"; sx_of e]
let map_opt f = function None -> None | Some e -> Some (f e)
let map_ty f t = { t with tdims = List.map (function AExpr e -> AExpr (f e) | d -> d) t.tdims }
let rec map_stmt (f : expr -> expr) (s : stmt) : stmt =
  match s with
  | SBlock ss -> SBlock (List.map (map_stmt f) ss)
  | SDecl (a, b, ty, n, i) -> SDecl (a, b, map_ty f ty, n, map_opt f i)
  | SReturn e -> SReturn (map_opt f e)
  | SIf (c, th, el) -> SIf (f c, List.map (map_stmt f) th, map_opt (List.map (map_stmt f)) el)
  | SFor (i, c, st, b) ->
    let i' = (match i with FNone -> FNone | FDecl (a, ty, n, e) -> FDecl (a, map_ty f ty, n, map_opt f e) | FExpr e -> FExpr (f e)) in
    SFor (i', f c, f st, List.map (map_stmt f) b)
  | SWhile (c, b) -> SWhile (f c, List.map (map_stmt f) b)
  | SEcho e -> SEcho (f e) | SReset e -> SReset (f e) | SMeasure e -> SMeasure (f e) | SDestroy e -> SDestroy (f e)
  | STern (c, a, b) -> STern (f c, map_stmt f a, map_stmt f b)
  | SAssign (n, e) -> SAssign (n, f e)
  | SExpr e -> SExpr (f e)
let tok_text (t : tok) : string =
  match t with
  | KLit (_, t) -> sc t | KId n -> sc n | KNull -> "null" | KThis -> "this" | KSuper -> "super" | KMeasure -> "measure" | KNew -> "new"
  | KPrim p -> prim_s p | KBin b -> binop_s b | KBang -> "!" | KTilde -> "~" | KInc -> "++" | KDec -> "--"
  | KDot -> "." | KLP -> "(" | KRP -> ")" | KLB -> "[" | KRB -> "]" | KLBrace -> "{" | KRBrace -> "}" | KComma -> "," | KAssign -> "="
  | KOther s -> sc s
let () =
  let ic = open_in Sys.argv.(1) in
  iter_lines (fun line ->
    if String.length line > 5 && String.sub line 0 5 = "tree " then begin
      let e = expr_of (parse_sx (String.sub line 5 (String.length line - 5))) in
      let e' = add_parens e in
      let toks = render e' in
      let src = String.concat " " (List.map tok_text toks) in
      let m = match parse_expr (toks @ [KRP]) with
        | Some (e2, [KRP]) -> if e2 = e' then "ok" else "model-differs:" ^ sx_of e2
        | Some (_, _) -> "model-rest"
        | None -> "model-none" in
      Printf.printf "SRC %s TREE %s STRIP %s MODEL %s\n" (hex src) (sx_of e') (sx_of (strip e')) m
    end
    else if String.length line > 6 && String.sub line 0 6 = "stree " then begin
      (* a statement tree: render it with the model, parse the rendering back with the model *)
      let s = map_stmt add_parens (stmt_of (parse_sx (String.sub line 6 (String.length line - 6)))) in
      let toks = render_stmt s in
      let src = String.concat " " (List.map tok_text toks) in
      let m = match parse_stmt (toks @ [KRBrace]) with
        | Some (s2, [KRBrace]) -> sx_stmt s2
        | Some (_, _) -> "model-rest"
        | None -> "model-none" in
      Printf.printf "SSRC %s TREE %s MPARSE %s\n" (hex src) (sx_stmt s) m
    end
    else if String.length line > 5 && String.sub line 0 5 = "smut " then begin
      (* every single-token deletion of a rendered statement: does the model's statement parser accept it as one statement? *)
      let s = map_stmt add_parens (stmt_of (parse_sx (String.sub line 5 (String.length line - 5)))) in
      let toks = render_stmt s in
      let n = List.length toks in
      for i = 0 to n - 1 do
        let l = List.filteri (fun j _ -> j <> i) toks in
        let src = String.concat " " (List.map tok_text l) in
        let ok = match parse_stmt (l @ [KRBrace]) with Some (_, [KRBrace]) -> "accept" | _ -> "reject" in
        Printf.printf "SMUT %s %s\n" (hex src) ok
      done;
      print_endline "END"
    end
    else if String.length line > 4 && String.sub line 0 4 = "mut " then begin
      (* every single-token deletion, duplication and adjacent swap of the rendered tree: does the model parser accept? *)
      let e = add_parens (expr_of (parse_sx (String.sub line 4 (String.length line - 4)))) in
      let toks = Array.of_list (render e) in
      let n = Array.length toks in
      let emit l =
        let src = String.concat " " (List.map tok_text l) in
        let ok = match parse_expr (l @ [KRP]) with Some (_, [KRP]) -> "accept" | _ -> "reject" in
        Printf.printf "MUT %s %s\n" (hex src) ok in
      for i = 0 to n - 1 do
        let l = Array.to_list toks in
        emit (List.filteri (fun j _ -> j <> i) l);
        emit (List.concat (List.mapi (fun j t -> if j = i then [t; t] else [t]) l));
        if i + 1 < n then emit (List.mapi (fun j t -> if j = i then toks.(i + 1) else if j = i + 1 then toks.(i) else t) l)
      done;
      print_endline "END"
    end) ic
