(* glue: s-expressions <-> Coq expr, tokens -> source text *)
type sx = A of string | L of sx list
let parse_sx (s : string) : sx =
  let n = String.length s in
  let pos = ref 0 in
  let rec skip () = while !pos < n && s.[!pos] = ' ' do incr pos done in
  let rec go () : sx =
    skip ();
    if s.[!pos] = '(' then begin
      incr pos; let items = ref [] in
      let rec loop () = skip (); if s.[!pos] = ')' then incr pos else (items := go () :: !items; loop ()) in
      loop (); L (List.rev !items) end
    else begin
      let st = !pos in
      while !pos < n && s.[!pos] <> ' ' && s.[!pos] <> '(' && s.[!pos] <> ')' do incr pos done;
      A (String.sub s st (!pos - st)) end in
  go ()
let cs = chars_of_string
let sc = string_of_chars
let binops = [("||",OrOr);("&&",AndAnd);("|",BOr);("^",BXor);("&",BAnd);("==",EqEq);("!=",NotEq);(">",Gt);("<",Lt);(">=",Ge);("<=",Le);
              ("+",Add);("-",Sub);("*",Mul);("/",Div);("%",Mod)]
let binop_of s = List.assoc s binops
let binop_s b = fst (List.find (fun (_, x) -> x = b) binops)
let preops = [("-",PNeg);("!",PNot);("~",PBNot)]
let prims = [("int",TyInt);("float",TyFloat);("bit",TyBit);("long",TyLong);("char",TyChar);("string",TyString);("qubit",TyQubit);("boolean",TyBoolean);("void",TyVoid)]
let prim_s p = fst (List.find (fun (_, x) -> x = p) prims)
let rec expr_of (x : sx) : expr =
  match x with
  | L [A "lit"; A k; A t] -> ELit (cs k, cs (unhex t))
  | L [A "null"] -> ENull | L [A "var"; A n] -> EVar (cs n) | L [A "this"] -> EThis | L [A "super"] -> ESuper
  | L [A "measure"; e] -> EMeasure (expr_of e)
  | L (A "new" :: A c :: args) -> ENew (cs c, List.map expr_of args)
  | L (A "arr" :: es) -> EArr (List.map expr_of es)
  | L [A "paren"; e] -> EParen (expr_of e)
  | L [A "cast"; A p; e] -> ECast (List.assoc p prims, expr_of e)
  | L [A "un"; A o; e] -> EUn (List.assoc o preops, expr_of e)
  | L [A "bin"; A o; l; r] -> EBin (binop_of o, expr_of l, expr_of r)
  | L [A "post"; A o; e] -> EPost ((if o = "++" then PInc else PDec), expr_of e)
  | L (A "call" :: f :: args) -> ECall (expr_of f, List.map expr_of args)
  | L [A "index"; c; i] -> EIndex (expr_of c, expr_of i)
  | L [A "member"; o; A m] -> EMember (expr_of o, cs m)
  | L [A "assign"; A n; v] -> EAssign (cs n, expr_of v)
  | L [A "arrassign"; c; i; v] -> EArrAssign (expr_of c, expr_of i, expr_of v)
  | L [A "memassign"; o; A m; v] -> EMemAssign (expr_of o, cs m, expr_of v)
  | _ -> failwith "bad sexp"
let rec sx_of (e : expr) : string =
  let l xs = "(" ^ String.concat " " xs ^ ")" in
  match e with
  | ELit (k, t) -> l ["lit"; sc k; hex (sc t)]
  | ENull -> "(null)" | EVar n -> l ["var"; sc n] | EThis -> "(this)" | ESuper -> "(super)"
  | EMeasure e -> l ["measure"; sx_of e]
  | ENew (c, args) -> l ("new" :: sc c :: List.map sx_of args)
  | EArr es -> l ("arr" :: List.map sx_of es)
  | EParen e -> l ["paren"; sx_of e]
  | ECast (p, e) -> l ["cast"; prim_s p; sx_of e]
  | EUn (o, e) -> l ["un"; fst (List.find (fun (_, x) -> x = o) preops); sx_of e]
  | EBin (o, a, b) -> l ["bin"; binop_s o; sx_of a; sx_of b]
  | EPost (o, e) -> l ["post"; (if o = PInc then "++" else "--"); sx_of e]
  | ECall (f, args) -> l ("call" :: sx_of f :: List.map sx_of args)
  | EIndex (c, i) -> l ["index"; sx_of c; sx_of i]
  | EMember (o, m) -> l ["member"; sx_of o; sc m]
  | EAssign (n, v) -> l ["assign"; sc n; sx_of v]
  | EArrAssign (c, i, v) -> l ["arrassign"; sx_of c; sx_of i; sx_of v]
  | EMemAssign (o, m, v) -> l ["memassign"; sx_of o; sc m; sx_of v]
let tok_text (t : tok) : string =
  match t with
  | KLit (_, t) -> sc t | KId n -> sc n | KNull -> "null" | KThis -> "this" | KSuper -> "super" | KMeasure -> "measure" | KNew -> "new"
  | KPrim p -> prim_s p | KBin b -> binop_s b | KBang -> "!" | KTilde -> "~" | KInc -> "++" | KDec -> "--"
  | KDot -> "." | KLP -> "(" | KRP -> ")" | KLB -> "[" | KRB -> "]" | KLBrace -> "{" | KRBrace -> "}" | KComma -> "," | KAssign -> "="
  | KOther s -> sc s
let () =
  let ic = open_in Sys.argv.(1) in
  iter_lines (fun line ->
    if String.length line > 5 && String.sub line 0 5 = "tree " then begin
      let e = expr_of (parse_sx (String.sub line 5 (String.length line - 5))) in
      let e' = add_parens e in
      let toks = render e' in
      let src = String.concat " " (List.map tok_text toks) in
      let m = match parse_expr (toks @ [KRP]) with
        | Some (e2, [KRP]) -> if e2 = e' then "ok" else "model-differs:" ^ sx_of e2
        | Some (_, _) -> "model-rest"
        | None -> "model-none" in
      Printf.printf "SRC %s TREE %s STRIP %s MODEL %s\n" (hex src) (sx_of e') (sx_of (strip e')) m
    end
    else if String.length line > 4 && String.sub line 0 4 = "mut " then begin
      (* every single-token deletion, duplication and adjacent swap of the rendered tree: does the model parser accept? *)
      let e = add_parens (expr_of (parse_sx (String.sub line 4 (String.length line - 4)))) in
      let toks = Array.of_list (render e) in
      let n = Array.length toks in
      let emit l =
        let src = String.concat " " (List.map tok_text l) in
        let ok = match parse_expr (l @ [KRP]) with Some (_, [KRP]) -> "accept" | _ -> "reject" in
        Printf.printf "MUT %s %s\n" (hex src) ok in
      for i = 0 to n - 1 do
        let l = Array.to_list toks in
        emit (List.filteri (fun j _ -> j <> i) l);
        emit (List.concat (List.mapi (fun j t -> if j = i then [t; t] else [t]) l));
        if i + 1 < n then emit (List.mapi (fun j t -> if j = i then toks.(i + 1) else if j = i + 1 then toks.(i) else t) l)
      done;
      print_endline "END"
    end) ic
