(* scalar instance: native binary64 and libm, exactly what the C++ uses *)
let fops : float sops = { s0 = 0.0; s1 = 1.0; s2 = 2.0; sadd = ( +. ); ssub = ( -. ); smul = ( *. ); sdiv = ( /. );
  sneg = (fun x -> -. x); ssqrt = sqrt; scos = cos; ssin = sin; sltb = (fun a b -> a < b); sis0 = (fun a -> a = 0.0) }
let rec nat_of_int n = if n <= 0 then O else S (nat_of_int (n - 1))
let rec int_of_nat = function O -> 0 | S n -> 1 + int_of_nat n
let fmt (t : float) : char list = chars_of_string (Printf.sprintf "%f" t)
let parse_script (toks : string list) : float sop list =
  let rec go acc = function
    | [] -> List.rev acc
    | "A" :: r -> go (SAlloc :: acc) r
    | "H" :: q :: r -> go (SOp (OGate (GH, nat_of_int (int_of_string q)), 0.0) :: acc) r
    | "X" :: q :: r -> go (SOp (OGate (GX, nat_of_int (int_of_string q)), 0.0) :: acc) r
    | "Y" :: q :: r -> go (SOp (OGate (GY, nat_of_int (int_of_string q)), 0.0) :: acc) r
    | "Z" :: q :: r -> go (SOp (OGate (GZ, nat_of_int (int_of_string q)), 0.0) :: acc) r
    | "RX" :: q :: t :: r -> go (SOp (OGate (GRx (float_of_string t), nat_of_int (int_of_string q)), 0.0) :: acc) r
    | "RY" :: q :: t :: r -> go (SOp (OGate (GRy (float_of_string t), nat_of_int (int_of_string q)), 0.0) :: acc) r
    | "RZ" :: q :: t :: r -> go (SOp (OGate (GRz (float_of_string t), nat_of_int (int_of_string q)), 0.0) :: acc) r
    | "CX" :: c :: t :: r -> go (SOp (OCx (nat_of_int (int_of_string c), nat_of_int (int_of_string t)), 0.0) :: acc) r
    | "R" :: q :: d :: r -> go (SOp (OReset (nat_of_int (int_of_string q)), float_of_string d) :: acc) r
    | "M" :: q :: d :: r -> go (SOp (OMeasure (nat_of_int (int_of_string q)), float_of_string d) :: acc) r
    | t :: _ -> failwith ("bad token " ^ t)
  in go [] toks
let () =
  let ic = open_in Sys.argv.(1) in
  iter_lines (fun line ->
    match split_ws line with
    | [] -> ()
    | "script" :: toks ->
      let ops = parse_script toks in
      let (s, tr) = sim_run fops (sim_init fops) ops in
      let b = Buffer.create 256 in
      Buffer.add_string b (Printf.sprintf "nq %d | amps" (int_of_nat s.nq));
      List.iter (fun (re, im) -> Buffer.add_string b (Printf.sprintf " %.17g %.17g" re im)) s.amps;
      Buffer.add_string b " | meas ";
      List.iter (fun f -> Buffer.add_char b (if f then '1' else '0')) s.meas;
      Buffer.add_string b " | trace ";
      List.iter (fun (e, o) ->
        Buffer.add_char b (match e, o with
          | Some ErrRange, _ -> 'r' | Some ErrMeasured, _ -> 'm'
          | None, Some true -> '1' | None, Some false -> '0' | None, None -> '.')) tr;
      Buffer.add_string b " | qasm ";
      Buffer.add_string b (hex (string_of_chars (emit fmt s.nq s.qlog)));
      print_endline (Buffer.contents b)
    | "eprog" :: draws :: toks ->
      let ds = if draws = "-" then [] else List.map float_of_string (String.split_on_char ',' draws) in
      let n x = nat_of_int (int_of_string x) in
      let gate g t = match g with
        | "H" -> GH | "X" -> GX | "Y" -> GY | "Z" -> GZ
        | "RX" -> GRx (float_of_string t) | "RY" -> GRy (float_of_string t) | "RZ" -> GRz (float_of_string t)
        | _ -> failwith "gate" in
      let rec go acc = function
        | [] -> List.rev acc
        | "D" :: k :: r -> go (EDecl (n k) :: acc) r
        | "G" :: g :: h :: el :: t :: r when (g = "RX" || g = "RY" || g = "RZ") -> go (EGate (gate g t, n h, n el) :: acc) r
        | "G" :: g :: h :: el :: r -> go (EGate (gate g "0", n h, n el) :: acc) r
        | "CX" :: a :: b :: c :: d :: r -> go (ECx (n a, n b, n c, n d) :: acc) r
        | "M" :: h :: el :: r -> go (EMeas (n h, n el) :: acc) r
        | "MA" :: h :: r -> go (EMeasAll (n h) :: acc) r
        | "R" :: h :: el :: r -> go (EReset (n h, n el) :: acc) r
        | "K" :: h :: r -> go (ERelease (n h) :: acc) r
        | t :: _ -> failwith ("bad eprog token " ^ t) in
      let ops = go [] toks in
      let (e, tr) = ev_run fops (evq_init fops) ops ds in
      let s = e.esim in
      let b = Buffer.create 256 in
      Buffer.add_string b (Printf.sprintf "nq %d | amps" (int_of_nat s.nq));
      List.iter (fun (re, im) -> Buffer.add_string b (Printf.sprintf " %.17g %.17g" re im)) s.amps;
      Buffer.add_string b " | meas ";
      List.iter (fun f -> Buffer.add_char b (if f then '1' else '0')) s.meas;
      Buffer.add_string b " | ev ";
      List.iter (fun f -> Buffer.add_char b (if f then '1' else '0')) e.eflags;
      Buffer.add_string b " | free ";
      Buffer.add_string b (String.concat "," (List.map (fun i -> string_of_int (int_of_nat i)) (List.rev e.efree)));
      Buffer.add_string b " | last ";
      Buffer.add_string b (String.concat "," (List.map (function None -> "-1" | Some true -> "1" | Some false -> "0") e.elast));
      Buffer.add_string b " | env ";
      Buffer.add_string b (String.concat ";" (List.map (function None -> "x" | Some is -> String.concat "," (List.map (fun i -> string_of_int (int_of_nat i)) is)) e.eenv));
      Buffer.add_string b " | trace ";
      Buffer.add_string b (String.concat ";" (List.map (function
        | ROk bits -> "ok:" ^ String.concat "" (List.map (fun x -> if x then "1" else "0") bits)
        | RErr EMeasuredLocated -> "err:measured" | RErr ERangeLocated -> "err:range" | RErr ESameQubit -> "err:same"
        | RErr (ESimUnlocated _) -> "err:sim" | RErr EBadHandle -> "err:handle") tr));
      Buffer.add_string b " | qasm ";
      Buffer.add_string b (hex (string_of_chars (emit fmt s.nq s.qlog)));
      print_endline (Buffer.contents b)
    | "tshots" :: nshots :: draws :: toks ->
      let ds = if draws = "-" then [] else List.map float_of_string (String.split_on_char ',' draws) in
      let n x = nat_of_int (int_of_string x) in
      let gate g t = match g with
        | "H" -> GH | "X" -> GX | "Y" -> GY | "Z" -> GZ
        | "RX" -> GRx (float_of_string t) | "RY" -> GRy (float_of_string t) | "RZ" -> GRz (float_of_string t)
        | _ -> failwith "gate" in
      let rec go acc = function
        | [] -> List.rev acc
        | "D" :: k :: r -> go (TOp (EDecl (n k)) :: acc) r
        | "G" :: g :: h :: el :: t :: r when (g = "RX" || g = "RY" || g = "RZ") -> go (TOp (EGate (gate g t, n h, n el)) :: acc) r
        | "G" :: g :: h :: el :: r -> go (TOp (EGate (gate g "0", n h, n el)) :: acc) r
        | "CX" :: a :: b :: c :: d :: r -> go (TOp (ECx (n a, n b, n c, n d)) :: acc) r
        | "M" :: h :: el :: r -> go (TOp (EMeas (n h, n el)) :: acc) r
        | "MA" :: h :: r -> go (TOp (EMeasAll (n h)) :: acc) r
        | "R" :: h :: el :: r -> go (TOp (EReset (n h, n el)) :: acc) r
        | "K" :: h :: r -> go (TOp (ERelease (n h)) :: acc) r
        | "E" :: h :: key :: r -> go (TExit (n h, chars_of_string (unhex key)) :: acc) r
        | "EF" :: h :: el :: key :: r -> go (TExitEl (n h, n el, chars_of_string (unhex key)) :: acc) r
        | t :: _ -> failwith ("bad tshots token " ^ t) in
      let ops = go [] toks in
      let (ts, rest) = shots_run fops (nat_of_int (int_of_string nshots)) ops ds in
      let agg = aggregate ts in
      let entries = List.concat (List.map (fun (v, row) -> List.map (fun (o, c) -> (string_of_chars v, string_of_chars o, int_of_nat c)) row) agg) in
      let entries = List.sort compare entries in
      Printf.printf "agg %s | consumed %d\n"
        (String.concat "," (List.map (fun (v, o, c) -> Printf.sprintf "%s|%s|%d" (hex v) (hex o) c) entries))
        (List.length ds - List.length rest)
    | ["replay"; hq; outs] ->
      (* independent reader of the emitted text + replay on n pre-allocated qubits with the recorded outcomes *)
      (match parse_qasm (chars_of_string (unhex hq)) with
       | None -> print_endline "parse-error"
       | Some (n, ops) ->
         let wf = List.for_all (op_wf n) ops in
         let outs = ref (if outs = "-" then [] else List.map (fun c -> c = '1') (chars_of_string outs)) in
         let next () = match !outs with b :: r -> outs := r; (if b then -1.0 else 2.0) | [] -> 2.0 in
         let fl t = float_of_string (string_of_chars t) in
         let conv = function
           | OGate (GH, q) -> SOp (OGate (GH, q), 0.0) | OGate (GX, q) -> SOp (OGate (GX, q), 0.0)
           | OGate (GY, q) -> SOp (OGate (GY, q), 0.0) | OGate (GZ, q) -> SOp (OGate (GZ, q), 0.0)
           | OGate (GRx t, q) -> SOp (OGate (GRx (fl t), q), 0.0) | OGate (GRy t, q) -> SOp (OGate (GRy (fl t), q), 0.0)
           | OGate (GRz t, q) -> SOp (OGate (GRz (fl t), q), 0.0)
           | OCx (c, t) -> SOp (OCx (c, t), 0.0)
           | OReset q -> let d = next () in SOp (OReset q, d)
           | OMeasure q -> let d = next () in SOp (OMeasure q, d) in
         let script = List.init (int_of_nat n) (fun _ -> SAlloc) @ List.map conv ops in
         let (s, tr) = sim_run fops (sim_init fops) script in
         let b = Buffer.create 256 in
         Buffer.add_string b (Printf.sprintf "nq %d | amps" (int_of_nat s.nq));
         List.iter (fun (re, im) -> Buffer.add_string b (Printf.sprintf " %.17g %.17g" re im)) s.amps;
         Buffer.add_string b (Printf.sprintf " | wf %b | nops %d | errs %d" wf (List.length ops)
           (List.length (List.filter (fun (e, _) -> e <> None) tr)));
         print_endline (Buffer.contents b))
    | _ -> failwith ("bad line: " ^ line)) ic
