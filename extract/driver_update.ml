let cl h = chars_of_string (unhex h)
let action_s = function AlreadyLatest -> "AlreadyLatest" | Refuse -> "Refuse" | Install -> "Install" | PromptMajor -> "PromptMajor"
let disk_of s = if s = "none" then None else
  match String.split_on_char ':' s with
  | [c; l; n] -> Some { latestV = cl l; lastChecked = z_of_int (int_of_string c); lastNotified = z_of_int (int_of_string n) }
  | _ -> failwith "disk"
let disk_s = function None -> "none" | Some c ->
  Printf.sprintf "%d:%s:%d" (int_of_z c.lastChecked) (hex (string_of_chars c.latestV)) (int_of_z c.lastNotified)
let () =
  let ic = open_in Sys.argv.(1) in
  iter_lines (fun line ->
    match split_ws line with
    | ["semver"; h] ->
      let s = parse_semver (cl h) in
      Printf.printf "%d %d %d %b\n" (int_of_z s.major) (int_of_z s.minor) (int_of_z s.patch) s.valid
    | ["action"; a; b] -> print_endline (action_s (update_action (cl a) (cl b)))
    | ["checksum"; c; a] ->
      (match parse_checksum (cl c) (cl a) with None -> print_endline "none" | Some h -> print_endline ("some " ^ hex (string_of_chars h)))
    | ["verdict"; c; a; h] ->
      print_endline (match checksum_verdict (if c = "!" then None else Some (cl c)) (cl a) (cl h) with
                     | Verified -> "Verified" | NoChecksums -> "NoChecksums" | NoEntry -> "NoEntry" | Mismatch -> "Mismatch")
    | "seq" :: d :: invs ->
      let rec go disk = function
        | n :: sk :: cur :: f :: rest ->
          let i = { now = z_of_int (int_of_string n); skip_env = (sk = "1"); writable = not (sk = "2" || sk = "3" || sk = "4"); curv = cl cur;
                    fetch = (if f = "!" then None else Some (cl f)) } in
          let (ns, disk') = check_for_updates disk i in
          let lbl = match disk' with _ -> "" in ignore lbl;
          Printf.printf "%d " (List.length ns); go disk' rest
        | [] -> print_endline ("| " ^ disk_s disk)
        | _ -> failwith "seq"
      in go (disk_of d) invs
    | ["stored"; ms] -> Printf.printf "%d\n" (int_of_z (stored_up (z_of_int (int_of_string ms))) / 1000)
    | [] -> ()
    | _ -> failwith ("bad line: " ^ line)) ic
