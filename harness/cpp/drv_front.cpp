// Front-end driver (lexer; parser and analyser commands are added below): public APIs only.
//   lex <hexsource>      -> "Type:hextext:line:col ..." or "ERR line col hexmsg"
#include <cstdio>
#include <fstream>
#include <iostream>
#include <sstream>
#include "bloch/compiler/lexer/lexer.hpp"
#include "bloch/compiler/parser/parser.hpp"
#include "bloch/compiler/ast/ast.hpp"
#include "bloch/support/error/bloch_error.hpp"
#include "verif_common.hpp"

using namespace bloch;
using bloch::compiler::TokenType;

using namespace bloch::compiler;
static std::string dumpType(Type* t) {
    if (!t) return "?";
    if (auto p = dynamic_cast<PrimitiveType*>(t)) return p->name;
    if (dynamic_cast<VoidType*>(t)) return "void";
    if (auto n = dynamic_cast<NamedType*>(t)) {
        std::string s;
        for (size_t i = 0; i < n->nameParts.size(); ++i) s += (i ? "." : "") + n->nameParts[i];
        if (n->hasTypeArgumentList) { s += "<"; for (size_t i = 0; i < n->typeArguments.size(); ++i) s += (i ? "," : "") + dumpType(n->typeArguments[i].get()); s += ">"; }
        return s;
    }
    if (auto a = dynamic_cast<ArrayType*>(t)) return dumpType(a->elementType.get()) + "[" + (a->size >= 0 ? std::to_string(a->size) : "") + "]";
    return "?";
}
static std::string dumpExpr(Expression* e) {
    if (!e) return "(nullptr)";
    auto list = [&](const std::vector<std::unique_ptr<Expression>>& v) { std::string s; for (auto& x : v) s += " " + dumpExpr(x.get()); return s; };
    if (auto x = dynamic_cast<LiteralExpression*>(e)) return "(lit " + x->literalType + " " + verif::hex(x->value) + ")";
    if (dynamic_cast<NullLiteralExpression*>(e)) return "(null)";
    if (auto x = dynamic_cast<VariableExpression*>(e)) return "(var " + x->name + ")";
    if (dynamic_cast<ThisExpression*>(e)) return "(this)";
    if (dynamic_cast<SuperExpression*>(e)) return "(super)";
    if (auto x = dynamic_cast<MeasureExpression*>(e)) return "(measure " + dumpExpr(x->qubit.get()) + ")";
    if (auto x = dynamic_cast<NewExpression*>(e)) return "(new " + dumpType(x->classType.get()) + list(x->arguments) + ")";
    if (auto x = dynamic_cast<ArrayLiteralExpression*>(e)) return "(arr" + list(x->elements) + ")";
    if (auto x = dynamic_cast<ParenthesizedExpression*>(e)) return "(paren " + dumpExpr(x->expression.get()) + ")";
    if (auto x = dynamic_cast<CastExpression*>(e)) return "(cast " + dumpType(x->targetType.get()) + " " + dumpExpr(x->expression.get()) + ")";
    if (auto x = dynamic_cast<UnaryExpression*>(e)) return "(un " + x->op + " " + dumpExpr(x->right.get()) + ")";
    if (auto x = dynamic_cast<BinaryExpression*>(e)) return "(bin " + x->op + " " + dumpExpr(x->left.get()) + " " + dumpExpr(x->right.get()) + ")";
    if (auto x = dynamic_cast<PostfixExpression*>(e)) return "(post " + x->op + " " + dumpExpr(x->left.get()) + ")";
    if (auto x = dynamic_cast<CallExpression*>(e)) return "(call " + dumpExpr(x->callee.get()) + list(x->arguments) + ")";
    if (auto x = dynamic_cast<IndexExpression*>(e)) return "(index " + dumpExpr(x->collection.get()) + " " + dumpExpr(x->index.get()) + ")";
    if (auto x = dynamic_cast<MemberAccessExpression*>(e)) return "(member " + dumpExpr(x->object.get()) + " " + x->member + ")";
    if (auto x = dynamic_cast<AssignmentExpression*>(e)) return "(assign " + x->name + " " + dumpExpr(x->value.get()) + ")";
    if (auto x = dynamic_cast<ArrayAssignmentExpression*>(e)) return "(arrassign " + dumpExpr(x->collection.get()) + " " + dumpExpr(x->index.get()) + " " + dumpExpr(x->value.get()) + ")";
    if (auto x = dynamic_cast<MemberAssignmentExpression*>(e)) return "(memassign " + dumpExpr(x->object.get()) + " " + x->member + " " + dumpExpr(x->value.get()) + ")";
    return "(unknown-expr)";
}

// statements, in the s-expression form of extract/driver_parse.ml (sx_stmt)
static std::string dumpTy(Type* t) {
    std::vector<std::string> dims;
    Type* cur = t;
    while (auto a = dynamic_cast<ArrayType*>(cur)) {
        std::string d = a->size >= 0 ? "(lit " + std::to_string(a->size) + ")" : (a->sizeExpression ? "(expr " + dumpExpr(a->sizeExpression.get()) + ")" : "(none)");
        dims.insert(dims.begin(), d);      // the outermost ArrayType is the last pair of brackets
        cur = a->elementType.get();
    }
    std::string base = "?";
    if (auto p = dynamic_cast<PrimitiveType*>(cur)) base = p->name;
    else if (dynamic_cast<VoidType*>(cur)) base = "void";
    else if (auto n = dynamic_cast<NamedType*>(cur)) base = "(cls " + dumpType(n) + ")";
    std::string s = "(ty " + base;
    for (auto& d : dims) s += " " + d;
    return s + ")";
}
static std::string dumpStmt(Statement* st);
static std::string dumpBlock(Statement* st) {
    auto b = dynamic_cast<BlockStatement*>(st);
    if (st && !b) return "(not-a-block " + dumpStmt(st) + ")";
    std::string s = "(block";
    if (b) for (auto& x : b->statements) s += " " + dumpStmt(x.get());
    return s + ")";
}
static std::string optExpr(Expression* e) { return e ? dumpExpr(e) : "-"; }
static std::string dumpStmt(Statement* st) {
    if (!st) return "(nullptr)";
    if (dynamic_cast<BlockStatement*>(st)) return dumpBlock(st);
    if (auto d = dynamic_cast<VariableDeclaration*>(st))
        return std::string("(decl ") + (d->isFinal ? "1" : "0") + " " + (d->isTracked ? "1" : "0") + " " + dumpTy(d->varType.get()) + " " + d->name + " " + optExpr(d->initializer.get()) + ")";
    if (auto r = dynamic_cast<ReturnStatement*>(st)) return "(return " + optExpr(r->value.get()) + ")";
    if (auto i = dynamic_cast<IfStatement*>(st))
        return "(if " + dumpExpr(i->condition.get()) + " " + dumpBlock(i->thenBranch.get()) + " " + (i->elseBranch ? dumpBlock(i->elseBranch.get()) : std::string("-")) + ")";
    if (auto f = dynamic_cast<ForStatement*>(st)) {
        std::string init = "(none)";
        if (auto d = dynamic_cast<VariableDeclaration*>(f->initializer.get()))
            init = std::string("(fdecl ") + (d->isFinal ? "1" : "0") + " " + dumpTy(d->varType.get()) + " " + d->name + " " + optExpr(d->initializer.get()) + (d->isTracked ? " tracked" : "") + ")";
        else if (auto e = dynamic_cast<ExpressionStatement*>(f->initializer.get())) init = "(fexpr " + dumpExpr(e->expression.get()) + ")";
        else if (f->initializer) init = "(unknown-init)";
        return "(for " + init + " " + dumpExpr(f->condition.get()) + " " + dumpExpr(f->increment.get()) + " " + dumpBlock(f->body.get()) + ")";
    }
    if (auto w = dynamic_cast<WhileStatement*>(st)) return "(while " + dumpExpr(w->condition.get()) + " " + dumpBlock(w->body.get()) + ")";
    if (auto e = dynamic_cast<EchoStatement*>(st)) return "(echo " + dumpExpr(e->value.get()) + ")";
    if (auto r = dynamic_cast<ResetStatement*>(st)) return "(reset " + dumpExpr(r->target.get()) + ")";
    if (auto m = dynamic_cast<MeasureStatement*>(st)) return "(smeasure " + dumpExpr(m->qubit.get()) + ")";
    if (auto d = dynamic_cast<DestroyStatement*>(st)) return "(destroy " + dumpExpr(d->target.get()) + ")";
    if (auto t = dynamic_cast<TernaryStatement*>(st))
        return "(tern " + dumpExpr(t->condition.get()) + " " + dumpStmt(t->thenBranch.get()) + " " + dumpStmt(t->elseBranch.get()) + ")";
    if (auto a = dynamic_cast<AssignmentStatement*>(st)) return "(sassign " + a->name + " " + dumpExpr(a->value.get()) + ")";
    if (auto e = dynamic_cast<ExpressionStatement*>(st)) return "(sexpr " + dumpExpr(e->expression.get()) + ")";
    return "(unknown-stmt)";
}

int main(int argc, char** argv) {
    if (argc < 2) return 2;
    std::ifstream in(argv[1]);
    std::string line;
    while (std::getline(in, line)) {
        std::istringstream ls(line);
        std::string cmd;
        if (!(ls >> cmd)) continue;
        if (cmd == "lex") {
            std::string h; ls >> h;
            std::string src = verif::unhex(h);
            try {
                compiler::Lexer lx(src);
                auto toks = lx.tokenize();
                bool first = true;
                for (auto& t : toks) {
                    printf("%s%s:%s:%d:%d", first ? "" : " ", verif::tokenTypeName(t.type), verif::hex(t.value).c_str(), t.line, t.column);
                    first = false;
                }
                printf("\n");
            } catch (const support::BlochError& e) {
                std::string m = e.what();
                // message text after ": " and before the colour reset
                auto p = m.find(": ");
                std::string body = p == std::string::npos ? m : m.substr(p + 2);
                auto q = body.find("\033[0m");
                if (q != std::string::npos) body = body.substr(0, q);
                printf("ERR %d %d %s\n", e.line, e.column, verif::hex(body).c_str());
            } catch (const std::exception& e) {
                printf("EXC %s\n", verif::hex(e.what()).c_str());
            }
        }
        else if (cmd == "expr") {
            // expr <hexsource>: parse `function main() -> void { echo(<source>); }` and dump the echo argument
            std::string h; ls >> h;
            std::string src = "function main() -> void { echo(" + verif::unhex(h) + "); }";
            try {
                Lexer lx(src);
                Parser ps(lx.tokenize());
                auto prog = ps.parse();
                std::string out = "(no-echo)";
                if (prog && !prog->functions.empty() && prog->functions[0]->body && !prog->functions[0]->body->statements.empty()) {
                    if (auto ec = dynamic_cast<EchoStatement*>(prog->functions[0]->body->statements[0].get()))
                        out = dumpExpr(ec->value.get());
                    if (prog->functions[0]->body->statements.size() != 1) out += " extra-statements";
                }
                printf("%s\n", out.c_str());
            } catch (const support::BlochError& e) {
                printf("ERR %s %d %d\n", e.category == support::ErrorCategory::Parse ? "Parse" : (e.category == support::ErrorCategory::Lexical ? "Lexical" : "Other"), e.line, e.column);
            } catch (const std::exception& e) {
                printf("EXC %s\n", verif::hex(e.what()).c_str());
            }
        }
        else if (cmd == "stmt") {
            // stmt <hexsource>: parse `function main() -> void { <source> }` and dump the body's single statement
            std::string h; ls >> h;
            std::string src = "function main() -> void { " + verif::unhex(h) + " }";
            try {
                Lexer lx(src);
                Parser ps(lx.tokenize());
                auto prog = ps.parse();
                std::string out = "(no-statement)";
                if (prog && !prog->functions.empty() && prog->functions[0]->body) {
                    auto& ss = prog->functions[0]->body->statements;
                    if (ss.size() == 1) out = dumpStmt(ss[0].get());
                    else out = "ERR Count " + std::to_string(ss.size()) + " statements";
                }
                printf("%s\n", out.c_str());
            } catch (const support::BlochError& e) {
                printf("ERR %s %d %d\n", e.category == support::ErrorCategory::Parse ? "Parse" : (e.category == support::ErrorCategory::Lexical ? "Lexical" : "Other"), e.line, e.column);
            } catch (const std::exception& e) {
                printf("EXC %s\n", verif::hex(e.what()).c_str());
            }
        }
        fflush(stdout);
    }
    return 0;
}
