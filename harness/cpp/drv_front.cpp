// Front-end driver (lexer; parser and analyser commands are added below): public APIs only.
//   lex <hexsource>      -> "Type:hextext:line:col ..." or "ERR line col hexmsg"
#include <cstdio>
#include <fstream>
#include <iostream>
#include <sstream>
#include "bloch/compiler/lexer/lexer.hpp"
#include "bloch/support/error/bloch_error.hpp"
#include "verif_common.hpp"

using namespace bloch;
using bloch::compiler::TokenType;

int main(int argc, char** argv) {
    if (argc < 2) return 2;
    std::ifstream in(argv[1]);
    std::string line;
    while (std::getline(in, line)) {
        std::istringstream ls(line);
        std::string cmd;
        if (!(ls >> cmd)) continue;
        if (cmd == "lex") {
            std::string h; ls >> h;
            std::string src = verif::unhex(h);
            try {
                compiler::Lexer lx(src);
                auto toks = lx.tokenize();
                bool first = true;
                for (auto& t : toks) {
                    printf("%s%s:%s:%d:%d", first ? "" : " ", verif::tokenTypeName(t.type), verif::hex(t.value).c_str(), t.line, t.column);
                    first = false;
                }
                printf("\n");
            } catch (const support::BlochError& e) {
                std::string m = e.what();
                // message text after ": " and before the colour reset
                auto p = m.find(": ");
                std::string body = p == std::string::npos ? m : m.substr(p + 2);
                auto q = body.find("\033[0m");
                if (q != std::string::npos) body = body.substr(0, q);
                printf("ERR %d %d %s\n", e.line, e.column, verif::hex(body).c_str());
            } catch (const std::exception& e) {
                printf("EXC %s\n", verif::hex(e.what()).c_str());
            }
        }
        fflush(stdout);
    }
    return 0;
}
