// C19 driver: ModuleLoader through its public API on directory trees built by the check.
//   load <root> <cwd_rel> <entry_rel> <search_rel;search_rel|->   -> "ok f1 f2 ..." (function names in merged order) | "err <class>"
#include <unistd.h>
#include <cstdio>
#include <filesystem>
#include <fstream>
#include <iostream>
#include <sstream>
#include "bloch/compiler/import/module_loader.hpp"
#include "bloch/support/error/bloch_error.hpp"
using namespace bloch;
int main(int argc, char** argv) {
    if (argc < 2) return 2;
    std::ifstream in(argv[1]);
    std::string line;
    while (std::getline(in, line)) {
        std::istringstream ls(line);
        std::string cmd, root, cwd, entry, search;
        if (!(ls >> cmd >> root >> cwd >> entry >> search) || cmd != "load") continue;
        std::vector<std::string> sp;
        if (search != "-") { std::stringstream ss(search); std::string s; while (std::getline(ss, s, ';')) if (!s.empty()) sp.push_back(root + "/" + s); }
        std::error_code ec;
        std::filesystem::current_path(root + "/" + cwd, ec);
        try {
            compiler::ModuleLoader loader(sp);
            auto prog = loader.load(root + "/" + entry);
            printf("ok");
            for (auto& fn : prog->functions) printf(" %s", fn->name.c_str());
            printf("\n");
        } catch (const support::BlochError& e) {
            std::string m = e.what();
            const char* cls = "other";
            if (m.find("import cycle detected") != std::string::npos) cls = "cycle";
            else if (m.find("resolved to package") != std::string::npos) cls = "package";
            else if (m.find("not found") != std::string::npos) cls = "notfound";
            else if (m.find("failed to open") != std::string::npos) cls = "open";
            else if (m.find("'main'") != std::string::npos) cls = "maincount";
            const char* cat = e.category == support::ErrorCategory::Semantic ? "Semantic" : (e.category == support::ErrorCategory::Parse ? "Parse" : "Other");
            printf("err %s %s\n", cls, cat);
        } catch (const std::exception& e) {
            printf("exc %s\n", e.what());
        }
        fflush(stdout);
    }
    return 0;
}
