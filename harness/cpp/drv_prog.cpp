// Program-level driver: runs Bloch programs through the real front end and evaluator (built from
// /repo's working tree, -DBLOCH_VERIF), one forked child per case, and reports everything observable
// plus (through the hooks) the simulator state and the evaluator's qubit bookkeeping.
//
// case file: one case per line:  run <path> [draws=a,b,c] [noexec] [shots=N] [twice] [quiet]
// output: one JSON object per line, in case order.
#include <sys/wait.h>
#include <unistd.h>
#include <csignal>
#include <cstdio>
#include <cstring>
#include <fstream>
#include <iostream>
#include <sstream>

#include "bloch/compiler/import/module_loader.hpp"
#include "bloch/compiler/semantics/semantic_analyser.hpp"
#include "bloch/runtime/runtime_evaluator.hpp"
#include "bloch/support/error/bloch_error.hpp"

namespace bloch::runtime {
    struct VerifAccess {
        static const QasmSimulator& sim(const RuntimeEvaluator& e) { return e.m_sim; }
        static std::string qubits(const RuntimeEvaluator& e) {
            std::string s;
            for (auto& q : e.m_qubits) s.push_back(q.measured ? '1' : '0');
            return s;
        }
        static std::vector<int> freeList(const RuntimeEvaluator& e) { return e.m_freeQubitIndices; }
        static std::vector<int> last(const RuntimeEvaluator& e) { return e.m_lastMeasurement; }
    };
}
using namespace bloch;

static std::string jstr(const std::string& s) {
    std::string o = "\"";
    char buf[8];
    for (unsigned char c : s) {
        if (c == '"' || c == '\\') { o.push_back('\\'); o.push_back(c); }
        else if (c == '\n') o += "\\n";
        else if (c == '\t') o += "\\t";
        else if (c < 0x20 || c >= 0x7f) { snprintf(buf, sizeof buf, "\\u%04x", c); o += buf; }
        else o.push_back(c);
    }
    o.push_back('"');
    return o;
}
static const char* catName(support::ErrorCategory c) {
    switch (c) {
        case support::ErrorCategory::Lexical: return "Lexical";
        case support::ErrorCategory::Parse: return "Parse";
        case support::ErrorCategory::Semantic: return "Semantic";
        case support::ErrorCategory::Runtime: return "Runtime";
        default: return "Generic";
    }
}

struct Opts { std::string path; std::vector<double> draws; bool noexec = false; int shots = 1; bool twice = false;
    bool quiet = false; std::string after; };

static void dumpEval(std::ostringstream& js, const runtime::RuntimeEvaluator& ev) {
    const auto& sim = runtime::VerifAccess::sim(ev);
    js << ",\"nq\":" << sim.verifQubits() << ",\"amps\":[";
    bool first = true;
    char buf[64];
    for (auto& a : sim.verifState()) {
        snprintf(buf, sizeof buf, "%s[%.17g,%.17g]", first ? "" : ",", a.real(), a.imag());
        // non-finite numbers are not JSON: encode as strings
        if (!std::isfinite(a.real()) || !std::isfinite(a.imag())) snprintf(buf, sizeof buf, "%s\"nonfinite\"", first ? "" : ",");
        js << buf;
        first = false;
    }
    js << "],\"sim_meas\":\"";
    for (bool b : sim.verifMeasured()) js << (b ? '1' : '0');
    js << "\",\"ev_meas\":\"" << runtime::VerifAccess::qubits(ev) << "\",\"free\":[";
    first = true;
    for (int f : runtime::VerifAccess::freeList(ev)) { js << (first ? "" : ",") << f; first = false; }
    js << "],\"last\":[";
    first = true;
    for (int f : runtime::VerifAccess::last(ev)) { js << (first ? "" : ",") << f; first = false; }
    js << "],\"qasm\":" << jstr(ev.getQasm()) << ",\"tracked\":{";
    first = true;
    for (auto& vk : ev.trackedCounts()) {
        js << (first ? "" : ",") << jstr(vk.first) << ":{";
        bool f2 = true;
        for (auto& vv : vk.second) { js << (f2 ? "" : ",") << jstr(vv.first) << ":" << vv.second; f2 = false; }
        js << "}";
        first = false;
    }
    js << "}";
}

static std::string runCase(const Opts& o) {
    std::ostringstream js;
    std::ostringstream out, err;
    auto* oldOut = std::cout.rdbuf(out.rdbuf());
    auto* oldErr = std::cerr.rdbuf(err.rdbuf());
    std::string status = "ok", cat, msg, phase = "load";
    int line = 0, col = 0;
    auto& q = runtime::VerifDraws::queue();
    q = o.draws;
    runtime::VerifDraws::pos() = 0;
    std::ostringstream evdump;
    try {
        compiler::ModuleLoader loader;
        auto program = loader.load(o.path);
        phase = "analyse";
        compiler::SemanticAnalyser analyser;
        if (!o.after.empty()) {
            // C13: one analyser instance, first this program (which may be rejected), then a known-good one
            std::string first = "ok", second = "ok";
            try { analyser.analyse(*program); }
            catch (const support::BlochError& e) { first = std::string("error:") + catName(e.category); }
            compiler::ModuleLoader loader2;
            auto good = loader2.load(o.after);
            try { analyser.analyse(*good); }
            catch (const support::BlochError& e) { second = std::string("error:") + catName(e.category) + ":" + e.what(); }
            std::cout.rdbuf(oldOut);
            std::cerr.rdbuf(oldErr);
            js << "{\"status\":\"reuse\",\"first\":" << jstr(first) << ",\"after\":" << jstr(second) << "}";
            return js.str();
        }
        analyser.analyse(*program);
        if (o.twice) {
            compiler::SemanticAnalyser analyser2;
            analyser2.analyse(*program);
        }
        phase = "run";
        if (!o.noexec) {
            for (int s = 0; s < o.shots; ++s) {
                // quiet: each shot configured exactly as cli.cpp configures the shots of a multi-shot run without --echo=all -
                // the QASM log only in the last shot, echo suppressed, exit warnings only in the last shot
                runtime::RuntimeEvaluator ev(o.quiet ? (s == o.shots - 1) : true);
                if (o.quiet) {
                    ev.setEcho(false);
                    if (s < o.shots - 1) ev.setWarnOnExit(false);
                }
                try {
                    ev.execute(*program);
                } catch (...) {
                    dumpEval(evdump, ev);
                    throw;
                }
                if (s == o.shots - 1) dumpEval(evdump, ev);
                else { evdump.str(""); }
                if (o.shots > 1) std::cout << "\x1f--shot--\n";      // per-shot output boundary
            }
        }
    } catch (const support::BlochError& e) {
        status = "error"; cat = catName(e.category); line = e.line; col = e.column; msg = e.what();
    } catch (const std::exception& e) {
        status = "exception"; msg = e.what();
    } catch (...) {
        status = "exception"; msg = "non-std exception";
    }
    std::cout.rdbuf(oldOut);
    std::cerr.rdbuf(oldErr);
    js << "{\"status\":" << jstr(status) << ",\"phase\":" << jstr(phase) << ",\"cat\":" << jstr(cat) << ",\"line\":" << line
       << ",\"col\":" << col << ",\"msg\":" << jstr(msg) << ",\"stdout\":" << jstr(out.str()) << ",\"stderr\":" << jstr(err.str());
    js << ",\"draws\":[";
    bool first = true;
    char buf[96];
    for (auto& r : runtime::VerifDraws::record()) {
        snprintf(buf, sizeof buf, "%s[\"%c\",%d,%.17g,%d]", first ? "" : ",", r.op, r.qubit, r.r, r.outcome);
        js << buf;
        first = false;
    }
    js << "]" << evdump.str() << "}";
    return js.str();
}

int main(int argc, char** argv) {
    if (argc < 2) return 2;
    int timeoutSec = argc > 2 ? atoi(argv[2]) : 10;
    std::ifstream in(argv[1]);
    std::string line;
    while (std::getline(in, line)) {
        std::istringstream ls(line);
        std::string cmd;
        if (!(ls >> cmd) || cmd != "run") continue;
        Opts o;
        ls >> o.path;
        std::string tok;
        while (ls >> tok) {
            if (tok.rfind("draws=", 0) == 0) {
                std::stringstream ds(tok.substr(6));
                std::string d;
                while (std::getline(ds, d, ',')) if (!d.empty()) o.draws.push_back(std::stod(d));
            } else if (tok == "noexec") o.noexec = true;
            else if (tok == "twice") o.twice = true;
            else if (tok == "quiet") o.quiet = true;
            else if (tok.rfind("after=", 0) == 0) o.after = tok.substr(6);
            else if (tok.rfind("shots=", 0) == 0) o.shots = std::stoi(tok.substr(6));
        }
        int fds[2];
        if (pipe(fds) != 0) return 3;
        fflush(stdout);
        pid_t pid = fork();
        if (pid == 0) {
            close(fds[0]);
            alarm(timeoutSec);
            std::string r = runCase(o);
            size_t off = 0;
            while (off < r.size()) {
                ssize_t n = write(fds[1], r.data() + off, r.size() - off);
                if (n <= 0) break;
                off += static_cast<size_t>(n);
            }
            close(fds[1]);
            _exit(0);   // skip static destructors: teardown crashes are observed inside runCase's scope
        }
        close(fds[1]);
        std::string res;
        char buf[65536];
        ssize_t n;
        while ((n = read(fds[0], buf, sizeof buf)) > 0) res.append(buf, static_cast<size_t>(n));
        close(fds[0]);
        int st = 0;
        waitpid(pid, &st, 0);
        if (WIFSIGNALED(st)) {
            printf("{\"status\":\"signal\",\"signal\":%d,\"partial\":%s}\n", WTERMSIG(st), jstr(res.substr(0, 2000)).c_str());
        } else if (WIFEXITED(st) && WEXITSTATUS(st) != 0) {
            printf("{\"status\":\"exit\",\"code\":%d,\"partial\":%s}\n", WEXITSTATUS(st), jstr(res.substr(0, 2000)).c_str());
        } else {
            printf("%s\n", res.c_str());
        }
        fflush(stdout);
    }
    return 0;
}
