// Correspondence driver for C01-C05 (direct): drives QasmSimulator from op scripts with injected draws
// and prints the full state.  Built against /repo's working tree with -DBLOCH_VERIF.
#include <cstdio>
#include <fstream>
#include <iostream>
#include <sstream>
#include "bloch/runtime/qasm_simulator.hpp"

using namespace bloch::runtime;
static std::string hex(const std::string& s) {
    if (s.empty()) return "-";
    static const char* d = "0123456789abcdef";
    std::string o;
    for (unsigned char c : s) { o.push_back(d[c >> 4]); o.push_back(d[c & 15]); }
    return o;
}
int main(int argc, char** argv) {
    if (argc < 2) return 2;
    std::ifstream in(argv[1]);
    std::string line;
    while (std::getline(in, line)) {
        std::istringstream ls(line);
        std::string cmd;
        if (!(ls >> cmd)) continue;
        if (cmd != "script") continue;
        QasmSimulator sim;
        std::string trace, tok;
        auto& q = VerifDraws::queue();
        while (ls >> tok) {
            char t = '.';
            try {
                if (tok == "A") sim.allocateQubit();
                else if (tok == "H") { int a; ls >> a; sim.h(a); }
                else if (tok == "X") { int a; ls >> a; sim.x(a); }
                else if (tok == "Y") { int a; ls >> a; sim.y(a); }
                else if (tok == "Z") { int a; ls >> a; sim.z(a); }
                else if (tok == "RX") { int a; double th; ls >> a >> th; sim.rx(a, th); }
                else if (tok == "RY") { int a; double th; ls >> a >> th; sim.ry(a, th); }
                else if (tok == "RZ") { int a; double th; ls >> a >> th; sim.rz(a, th); }
                else if (tok == "CX") { int a, b; ls >> a >> b; sim.cx(a, b); }
                else if (tok == "R") {
                    int a; double r; ls >> a >> r;
                    q.clear(); VerifDraws::pos() = 0; q.push_back(r);
                    size_t before = VerifDraws::record().size();
                    sim.reset(a);
                    t = (VerifDraws::record().size() > before && VerifDraws::record().back().outcome) ? '1' : '0';
                } else if (tok == "M") {
                    int a; double r; ls >> a >> r;
                    q.clear(); VerifDraws::pos() = 0; q.push_back(r);
                    t = sim.measure(a) ? '1' : '0';
                }
            } catch (const bloch::support::BlochError& e) {
                std::string m = e.what();
                t = m.find("out of range") != std::string::npos ? 'r' : (m.find("measured") != std::string::npos ? 'm' : '?');
            }
            trace.push_back(t);
        }
        printf("nq %d | amps", sim.verifQubits());
        for (auto& a : sim.verifState()) printf(" %.17g %.17g", a.real(), a.imag());
        printf(" | meas ");
        for (bool b : sim.verifMeasured()) putchar(b ? '1' : '0');
        printf(" | trace %s | qasm %s\n", trace.c_str(), hex(sim.getQasm()).c_str());
        fflush(stdout);
    }
    return 0;
}
