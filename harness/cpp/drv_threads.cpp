// C11: the collector's timer thread is stopped when a run ends, normally or by an error.
// usage: drv_threads <file.bloch>...   prints one line per file: "<status> <threads after the run, evaluator still alive>"
#include <chrono>
#include <filesystem>
#include <fstream>
#include <iostream>
#include <sstream>
#include <thread>
#include "bloch/compiler/lexer/lexer.hpp"
#include "bloch/compiler/parser/parser.hpp"
#include "bloch/compiler/semantics/semantic_analyser.hpp"
#include "bloch/runtime/runtime_evaluator.hpp"
#include "bloch/support/error/bloch_error.hpp"
using namespace bloch;

static int nthreads() {
    int n = 0;
    for (auto& e : std::filesystem::directory_iterator("/proc/self/task")) { (void)e; ++n; }
    return n;
}

int main(int argc, char** argv) {
    for (int i = 1; i < argc; ++i) {
        std::ifstream in(argv[i]);
        std::stringstream ss;
        ss << in.rdbuf();
        std::string src = ss.str();
        std::string status = "ok";
        std::ostringstream sink;
        auto* old = std::cout.rdbuf(sink.rdbuf());
        int after = -1;
        try {
            compiler::Lexer lexer(src);
            compiler::Parser parser(lexer.tokenize());
            auto program = parser.parse();
            compiler::SemanticAnalyser an;
            an.analyse(*program);
            runtime::RuntimeEvaluator ev;           // stays alive while the threads are counted
            try {
                ev.execute(*program);
            } catch (const support::BlochError&) {
                status = "runtime-error";
            }
            std::this_thread::sleep_for(std::chrono::milliseconds(120));   // more than two timer periods
            after = nthreads();
        } catch (const support::BlochError&) {
            status = "rejected";
            after = nthreads();
        }
        std::cout.rdbuf(old);
        std::cout << status << " " << after << std::endl;
    }
    return 0;
}
