// Correspondence driver for C20: reaches update_manager.cpp's file-local helpers by including
// the translation unit (built from /repo's current working tree, -DBLOCH_VERIF).
#include "bloch/update/update_manager.cpp"

#include <cstdio>
#include <unistd.h>

using namespace bloch::update;

static std::string unhex(const std::string& h) {
    if (h == "-") return "";
    std::string out;
    for (size_t i = 0; i + 1 < h.size(); i += 2) out.push_back(static_cast<char>(std::stoi(h.substr(i, 2), nullptr, 16)));
    return out;
}
static std::string hex(const std::string& s) {
    if (s.empty()) return "-";
    static const char* d = "0123456789abcdef";
    std::string o;
    for (unsigned char c : s) { o.push_back(d[c >> 4]); o.push_back(d[c & 15]); }
    return o;
}

struct Capture {
    std::ostringstream out, err;
    std::streambuf *o, *e;
    Capture() : o(std::cout.rdbuf(out.rdbuf())), e(std::cerr.rdbuf(err.rdbuf())) {}
    ~Capture() { std::cout.rdbuf(o); std::cerr.rdbuf(e); }
};

int main(int argc, char** argv) {
    if (argc < 3) return 2;
    std::ifstream in(argv[1]);
    std::string cacheHome = argv[2];
    setenv("XDG_CACHE_HOME", cacheHome.c_str(), 1);
    std::istringstream emptyIn("");
    std::string line;
    while (std::getline(in, line)) {
        std::istringstream ls(line);
        std::string cmd;
        if (!(ls >> cmd)) continue;
        try {
            if (cmd == "semver") {
                std::string h; ls >> h;
                auto s = parseSemVer(unhex(h));
                printf("%d %d %d %s\n", s.major, s.minor, s.patch, s.valid ? "true" : "false");
            } else if (cmd == "action") {
                std::string a, b; ls >> a >> b;
                std::string cur = unhex(a), lat = unhex(b);
                setenv("BLOCH_VERIF_LATEST_TAG", lat.c_str(), 1);
                std::istringstream noInput("");
                auto* oldin = std::cin.rdbuf(noInput.rdbuf());
                std::string o, e;
                {
                    Capture cap;
                    performSelfUpdate(cur, "bloch");
                    o = cap.out.str(); e = cap.err.str();
                }
                std::cin.rdbuf(oldin);
                std::cin.clear();
                unsetenv("BLOCH_VERIF_LATEST_TAG");
                const char* r = "Unknown";
                if (o.find("already have the latest") != std::string::npos) r = "AlreadyLatest";
                else if (o.find("Proceed with the update?") != std::string::npos) r = "PromptMajor";
                else if (e.find("Failed to download") != std::string::npos) r = "Install";
                else if (e.find("not updating") != std::string::npos) r = "Refuse";
                printf("%s\n", r);
            } else if (cmd == "checksum") {
                std::string c, a; ls >> c >> a;
                auto r = parseChecksum(unhex(c), unhex(a));
                if (r) printf("some %s\n", hex(*r).c_str()); else printf("none\n");
            } else if (cmd == "verdict") {
                std::string c, a, h; ls >> c >> a >> h;
                std::optional<std::string> content;
                if (c != "!") content = unhex(c);
                switch (checksumVerdict(content, unhex(a), unhex(h))) {
                    case ChecksumVerdict::Verified: printf("Verified\n"); break;
                    case ChecksumVerdict::NoChecksums: printf("NoChecksums\n"); break;
                    case ChecksumVerdict::NoEntry: printf("NoEntry\n"); break;
                    case ChecksumVerdict::Mismatch: printf("Mismatch\n"); break;
                }
            } else if (cmd == "seq") {
                std::string d; ls >> d;
                std::filesystem::path cf = std::filesystem::path(cacheHome) / "bloch" / "update_cache.txt";
                std::filesystem::create_directories(cf.parent_path());
                std::filesystem::remove(cf);
                if (d != "none") {
                    auto p1 = d.find(':'), p2 = d.rfind(':');
                    std::ofstream o(cf);
                    o << d.substr(0, p1) << "\n" << unhex(d.substr(p1 + 1, p2 - p1 - 1)) << "\n" << d.substr(p2 + 1) << "\n";
                }
                std::string n, sk, cur, f, announced;
                while (ls >> n >> sk >> cur >> f) {
                    setenv("BLOCH_VERIF_NOW", n.c_str(), 1);
                    unsetenv("CI"); unsetenv("BLOCH_OFFLINE");
                    if (sk == "1") setenv("BLOCH_NO_UPDATE_CHECK", "1", 1); else unsetenv("BLOCH_NO_UPDATE_CHECK");
                    std::string tag = (f == "!") ? "!fail" : unhex(f);
                    setenv("BLOCH_VERIF_LATEST_TAG", tag.c_str(), 1);
                    // sk 2: the cache can be read but not written (hook H6); sk 3: it can be neither read nor written (its
                    // directory is replaced by a plain file for the duration of the call - no hook involved)
                    if (sk == "2") setenv("BLOCH_VERIF_CACHE_READONLY", "1", 1); else unsetenv("BLOCH_VERIF_CACHE_READONLY");
                    std::filesystem::path dir = cf.parent_path(), aside = dir; aside += ".aside";
                    if (sk == "3") { std::filesystem::rename(dir, aside); std::ofstream block(dir); block << "x"; }
                    // sk 4: the cache file swallows writes and yields nothing (a link to /dev/null) - no hook involved
                    std::filesystem::path cfAside = cf; cfAside += ".aside";
                    bool hadCache = false;
                    if (sk == "4") {
                        std::error_code ec;
                        hadCache = std::filesystem::exists(cf, ec);
                        if (hadCache) std::filesystem::rename(cf, cfAside);
                        std::filesystem::create_symlink("/dev/null", cf);
                    }
                    std::string o;
                    { Capture cap; checkForUpdatesIfDue(unhex(cur)); o = cap.out.str(); }
                    if (sk == "3") { std::filesystem::remove(dir); std::filesystem::rename(aside, dir); }
                    if (sk == "4") { std::filesystem::remove(cf); if (hadCache) std::filesystem::rename(cfAside, cf); }
                    unsetenv("BLOCH_VERIF_CACHE_READONLY");
                    int count = 0; size_t pos = 0;
                    while ((pos = o.find("There is a new", pos)) != std::string::npos) {
                        ++count;
                        size_t a = o.find("version of Bloch, ", pos), b = o.find(". You currently have", pos);
                        if (a != std::string::npos && b != std::string::npos && b > a)
                            announced += " " + n + ":" + hex(o.substr(a + 18, b - a - 18));
                        ++pos;
                    }
                    printf("%d ", count);
                }
                unsetenv("BLOCH_VERIF_LATEST_TAG");
                std::ifstream ci(cf);
                std::string a, b, c;
                if (ci && std::getline(ci, a) && std::getline(ci, b) && std::getline(ci, c))
                    printf("| %s:%s:%s ||%s\n", a.c_str(), hex(b).c_str(), c.c_str(), announced.c_str());
                else
                    printf("| none ||%s\n", announced.c_str());
            }
        } catch (const std::exception& ex) {
            printf("EXC %s\n", ex.what());
        }
        fflush(stdout);
    }
    return 0;
}
