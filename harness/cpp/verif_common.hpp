// Shared glue for the harness drivers.
#pragma once
#include <string>
#include "bloch/compiler/lexer/token.hpp"
namespace verif {
    inline std::string unhex(const std::string& h) {
        if (h == "-") return "";
        std::string out;
        for (size_t i = 0; i + 1 < h.size(); i += 2) out.push_back(static_cast<char>(std::stoi(h.substr(i, 2), nullptr, 16)));
        return out;
    }
    inline std::string hex(const std::string& s) {
        if (s.empty()) return "-";
        static const char* d = "0123456789abcdef";
        std::string o;
        for (unsigned char c : s) { o.push_back(d[c >> 4]); o.push_back(d[c & 15]); }
        return o;
    }
    // spelled by hand from token.hpp's enum (switch, so a renamed or removed enumerator fails to compile)
    inline const char* tokenTypeName(bloch::compiler::TokenType t) {
        using T = bloch::compiler::TokenType;
        switch (t) {
#define V(x) case T::x: return #x;
            V(Identifier) V(IntegerLiteral) V(FloatLiteral) V(LongLiteral) V(BitLiteral) V(StringLiteral) V(CharLiteral)
            V(True) V(False) V(Null) V(Int) V(Long) V(Float) V(String) V(Char) V(Qubit) V(Bit) V(Boolean) V(Void)
            V(Function) V(Return) V(If) V(Else) V(For) V(While) V(Measure) V(Final) V(Reset) V(Default)
            V(At) V(Quantum) V(Tracked) V(Shots)
            V(Class) V(Public) V(Private) V(Protected) V(Static) V(Extends) V(Abstract) V(Virtual) V(Override) V(Super) V(This)
            V(Import) V(Package) V(New) V(Constructor) V(Destructor) V(Destroy)
            V(Equals) V(Plus) V(PlusPlus) V(Minus) V(MinusMinus) V(Star) V(Slash) V(Percent) V(Greater) V(GreaterEqual) V(Less) V(LessEqual)
            V(EqualEqual) V(Bang) V(BangEqual) V(Ampersand) V(AmpersandAmpersand) V(Pipe) V(PipePipe) V(Caret) V(Tilde) V(Question)
            V(Colon) V(Dot) V(Semicolon) V(Comma) V(Arrow) V(LParen) V(RParen) V(LBrace) V(RBrace) V(LBracket) V(RBracket)
            V(Echo) V(Eof) V(Unknown)
#undef V
        }
        return "?";
    }
}
