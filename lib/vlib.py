"""Shared machinery for the bloch verification checks (see DESIGN.md sections 2-3).

Everything a registered check needs lives under /verif (build output in /verif/build,
gitignored).  Nothing here reads or writes /tmp.
"""
import fcntl
import functools
import hashlib
import json
import os
import random
import re
import shutil
import subprocess
import sys
import time

VERIF = os.path.dirname(os.path.dirname(os.path.abspath(__file__)))
REPO = os.environ.get("VERIF_REPO", "/repo")
BUILD = os.path.join(VERIF, "build")
COQ = os.path.join(VERIF, "coq")
EVID = os.path.join(VERIF, "evidence")
REPLAY = os.path.join(EVID, "replay")
GUARD = "BLOCH_VERIF"
NCPU = os.cpu_count() or 4

# Axioms that may appear under Print Assumptions: all declared by Coq's standard library.
ALLOWED_AXIOMS = {
    "ClassicalDedekindReals.sig_forall_dec",
    "ClassicalDedekindReals.sig_not_dec",
    "FunctionalExtensionality.functional_extensionality_dep",
    "Classical_Prop.classic",
}


def log(*a):
    print(*a, flush=True)


def sh(cmd, timeout=1800, cwd=None, env=None, input=None, check=False):
    """Run a command, return (rc, stdout+stderr text)."""
    e = dict(os.environ)
    if env:
        e.update(env)
    try:
        p = subprocess.run(cmd, shell=isinstance(cmd, str), cwd=cwd, env=e, input=input,
                           stdout=subprocess.PIPE, stderr=subprocess.STDOUT, timeout=timeout,
                           text=True, errors="replace")
        rc, out = p.returncode, p.stdout
    except subprocess.TimeoutExpired as ex:
        rc, out = 124, (ex.stdout or "") if isinstance(ex.stdout, str) else ""
    if check and rc != 0:
        raise RuntimeError("command failed (%d): %s\n%s" % (rc, cmd, out[-4000:]))
    return rc, out


# --------------------------------------------------------------------------- Coq


def locked(lockname):
    """Builds are shared by all checks; two checks started together must not run the same build step at once."""
    def deco(fn):
        @functools.wraps(fn)
        def wrapper(*a, **kw):
            d = os.path.join(BUILD, "locks")
            os.makedirs(d, exist_ok=True)
            with open(os.path.join(d, lockname + ".lock"), "w") as lf:
                fcntl.flock(lf, fcntl.LOCK_EX)
                try:
                    return fn(*a, **kw)
                finally:
                    fcntl.flock(lf, fcntl.LOCK_UN)
        return wrapper
    return deco

def coq_makefile():
    mk = os.path.join(COQ, "Makefile")
    cp = os.path.join(COQ, "_CoqProject")
    if (not os.path.exists(mk)) or os.path.getmtime(mk) < os.path.getmtime(cp):
        sh("coq_makefile -f _CoqProject -o Makefile", cwd=COQ, check=True)


def coq_project_files():
    out = []
    for l in open(os.path.join(COQ, "_CoqProject")):
        l = l.strip()
        if l.endswith(".v"):
            out.append(l)
    return out


@locked("coq")
def coq_make(targets, timeout=3000):
    """Full .vo build (never -vos) of the given targets, keep going on failure."""
    coq_makefile()
    rc, out = sh("make -k -j%d %s" % (NCPU, " ".join(targets)), cwd=COQ, timeout=timeout)
    return rc == 0, out


FORBIDDEN = re.compile(
    r"\b(Admitted|admit|Axiom|Axioms|Parameter|Parameters|Conjecture|Conjectures|Abort All|"
    r"Unset Guard Checking|Unset Positivity Checking|Unset Universe Checking|bypass_check|"
    r"type-in-type|impredicative-set|Admit Obligations|native_compute)\b")


def coq_forbidden_scan():
    """grep the development for anything that would declare an axiom or switch off a check."""
    hits = []
    for f in coq_project_files() + ["_CoqProject"]:
        p = os.path.join(COQ, f)
        txt = open(p).read()
        # strip comments (non-nested is enough: we never write the words in comments either)
        txt2 = re.sub(r"\(\*.*?\*\)", "", txt, flags=re.S)
        for m in FORBIDDEN.finditer(txt2):
            hits.append("%s: %s" % (f, m.group(0)))
        # Variable / Hypothesis outside a section
        depth = 0
        for line in txt2.splitlines():
            s = line.strip()
            if re.match(r"Section\s+\w+", s):
                depth += 1
            elif re.match(r"End\s+\w+", s) and depth > 0:
                depth -= 1
            elif depth == 0 and re.match(r"(Variable|Variables|Hypothesis|Hypotheses|Context)\b", s):
                hits.append("%s: %s outside section" % (f, s[:40]))
    return hits


def coq_properties(pid, extra_deps=()):
    """Build theories/Properties_<pid>.vo and everything it needs; then re-run coqc on the
    properties file to capture Print Assumptions.  Returns dict with obligations etc."""
    res = {"ok": False, "theorems": [], "axioms": {}, "log": "", "failed": []}
    tgt = "theories/Properties_%s.vo" % pid
    ok, out = coq_make([tgt] + list(extra_deps))
    res["log"] = out
    src = os.path.join(COQ, "theories", "Properties_%s.v" % pid)
    text = open(src).read()
    thms = re.findall(r"^\s*(?:Theorem|Corollary)\s+(\w+)", text, flags=re.M)
    res["theorems"] = thms
    if not ok:
        res["failed"] = re.findall(r"File \"([^\"]+)\", line (\d+)", out)[:5]
        return res
    rc, out2 = sh("coqc -Q theories Bloch theories/Properties_%s.v" % pid, cwd=COQ, timeout=900)
    res["log"] += out2
    if rc != 0:
        res["failed"] = [("Properties_%s.v" % pid, "coqc rc=%d" % rc)]
        return res
    # Parse Print Assumptions blocks: either "Closed under the global context" or "Axioms:" list
    blocks = re.split(r"(?=Closed under the global context|Axioms:)", out2)
    seen = []
    for b in blocks:
        if b.startswith("Closed under the global context"):
            seen.append([])
        elif b.startswith("Axioms:"):
            ax = re.findall(r"^([A-Za-z_][\w.']*)\s*(?::|$)", b[len("Axioms:"):], flags=re.M)
            seen.append(sorted(set(ax)))
    res["assumption_blocks"] = seen
    bad = []
    for i, axs in enumerate(seen):
        for a in axs:
            if a not in ALLOWED_AXIOMS:
                bad.append(a)
    res["bad_axioms"] = sorted(set(bad))
    n_print = len(re.findall(r"^\s*Print Assumptions\s+\w+", text, flags=re.M))
    res["n_print"] = n_print
    res["ok"] = (len(seen) == n_print) and n_print >= len(thms) and not bad
    allax = sorted(set(a for axs in seen for a in axs))
    res["all_axioms"] = allax
    return res


# --------------------------------------------------------------------------- /repo builds

@locked("repo")
def repo_build(kind="hooked", targets=("bloch", "bloch_update", "bloch_http")):
    """(Re)build /repo's current working tree out of tree.  kind: hooked | asan | tsan | plain (no hooks)."""
    bdir = os.path.join(BUILD, kind)
    flags = "-D%s" % GUARD if kind != "tsan" else "-DBLOCH_VERIF_OFF"     # tsan: the real timer thread, no hooks
    btype = "Release"
    if kind == "asan":
        # signed overflow / out-of-range float->int conversions are outside what the documentation fixes; they are
        # neither a crash nor a memory error and are excluded (DESIGN.md, C12)
        flags += (" -O1 -g -fsanitize=address,undefined -fno-sanitize=signed-integer-overflow,float-cast-overflow"
                  " -fno-sanitize-recover=undefined -fno-omit-frame-pointer")
        btype = "None"
    if kind == "tsan":
        flags += " -O1 -g -fsanitize=thread -fno-omit-frame-pointer"
        btype = "None"
    stamp = os.path.join(bdir, ".verif_flags")
    if os.path.exists(bdir) and (not os.path.exists(stamp) or open(stamp).read() != flags):
        shutil.rmtree(bdir, ignore_errors=True)
    if not os.path.exists(os.path.join(bdir, "build.ninja")):
        os.makedirs(bdir, exist_ok=True)
        rc, out = sh(["cmake", "-S", REPO, "-B", bdir, "-G", "Ninja", "-DCMAKE_BUILD_TYPE=" + btype,
                      "-DCMAKE_CXX_FLAGS=" + flags], timeout=600)
        if rc != 0:
            raise RuntimeError("cmake configure failed:\n" + out[-3000:])
        open(stamp, "w").write(flags)
    rc, out = sh(["cmake", "--build", bdir, "-j", str(NCPU), "--target"] + list(targets), timeout=1800)
    if rc != 0:
        raise RuntimeError("build of /repo (%s) failed:\n%s" % (kind, out[-4000:]))
    return bdir


@locked("cpp")
def cpp_driver(name, kind="hooked", extra_flags="", libs=("bloch_runtime", "bloch_compiler"), deps=(), link_flags=""):
    """Compile harness/cpp/<name>.cpp against the repo build of the given kind."""
    bdir = os.path.join(BUILD, kind)
    src = os.path.join(VERIF, "harness", "cpp", name + ".cpp")
    outp = os.path.join(BUILD, "drivers", kind, name)
    os.makedirs(os.path.dirname(outp), exist_ok=True)
    libfiles = [os.path.join(bdir, "src", "lib%s.a" % l) for l in libs]
    hdr = os.path.join(VERIF, "harness", "cpp", "verif_common.hpp")
    deps = list(deps) + ([hdr] if os.path.exists(hdr) else [])
    newest = max([os.path.getmtime(src)] + [os.path.getmtime(l) for l in libfiles] +
                 [os.path.getmtime(d) for d in deps])
    if os.path.exists(outp) and os.path.getmtime(outp) >= newest:
        return outp
    flags = "-std=c++20 -O1 -D%s -I%s/src -I%s/harness/cpp %s" % (GUARD, REPO, VERIF, extra_flags)
    if kind == "asan":
        flags += " -g -fsanitize=address,undefined -fno-sanitize=signed-integer-overflow,float-cast-overflow -fno-sanitize-recover=undefined"
    cmd = "g++ %s %s %s %s -lpthread -o %s" % (flags, src, " ".join(libfiles), link_flags, outp)
    rc, out = sh(cmd, timeout=900)
    if rc != 0:
        raise RuntimeError("driver %s failed to build:\n%s" % (name, out[:1500]))
    return outp


# --------------------------------------------------------------------------- OCaml extraction

@locked("ocaml")
def ocaml_engine(name, driver=None):
    """Extract coq/extract/Extract_<name>.v -> build/ml/<name>/, compile with driver
    extract/driver_<name>.ml.  Rebuilt when any .vo or the driver is newer."""
    d = os.path.join(BUILD, "ml", name)
    os.makedirs(d, exist_ok=True)
    exv = os.path.join(VERIF, "extract", "Extract_%s.v" % name)
    drv = os.path.join(VERIF, "extract", "driver_%s.ml" % (driver or name))
    exe = os.path.join(d, name + ".exe")
    srcs = [exv, drv, os.path.join(VERIF, "extract", "common.ml")]
    thdir = os.path.join(COQ, "theories")
    for root, _, fs in os.walk(thdir):
        for f in fs:
            if f.endswith(".vo"):
                srcs.append(os.path.join(root, f))
    newest = max(os.path.getmtime(s) for s in srcs)
    if os.path.exists(exe) and os.path.getmtime(exe) >= newest:
        return exe
    rc, out = sh("coqc -Q %s Bloch %s" % (thdir, exv), cwd=d, timeout=900)
    if rc != 0:
        raise RuntimeError("extraction %s failed:\n%s" % (name, out[-3000:]))
    mls = sorted(f for f in os.listdir(d) if f.endswith(".ml") and not f.startswith("driver_"))
    # single extracted module per engine (Extraction "<name>_model.ml")
    mod = name + "_model"
    with open(os.path.join(d, "driver_%s.ml" % name), "w") as f:
        f.write("open %s\n" % (mod[0].upper() + mod[1:]))
        mli = open(os.path.join(d, mod + ".mli")).read()
        if re.search(r"^type z =", mli, flags=re.M):
            f.write(open(os.path.join(VERIF, "extract", "common_z.ml")).read())
        f.write(open(os.path.join(VERIF, "extract", "common.ml")).read())
        f.write(open(drv).read())
    cmd = "ocamlfind ocamlopt -package str -linkpkg -O3 -w -a %s.mli %s.ml driver_%s.ml -o %s" % (mod, mod, name, exe)
    rc, out = sh(cmd.replace(" -O3", ""), cwd=d, timeout=900)
    if rc != 0:
        raise RuntimeError("ocaml build %s failed:\n%s" % (name, out[-3000:]))
    return exe


# --------------------------------------------------------------------------- findings / evidence

def load_known():
    p = os.path.join(VERIF, "known_findings.json")
    if not os.path.exists(p):
        return {"findings": [], "fixed": []}
    return json.load(open(p))


class Check:
    """One run of one property's check."""

    def __init__(self, pid, tier, seed):
        self.pid, self.tier, self.seed = pid, tier, seed
        self.t0 = time.time()
        self.rng = random.Random(seed)
        self.violations = []      # (what, replay_path, no_input)
        self.known_hits = []      # (finding id, what)
        self.notes = []
        self.cov = {"samples": []}
        self.assumptions = []
        self.level = "proof"
        self.known = [f for f in load_known().get("findings", []) if f.get("property") == pid]
        os.makedirs(REPLAY, exist_ok=True)
        os.makedirs(EVID, exist_ok=True)

    # -- reporting
    def replay_file(self, tag, payload):
        h = hashlib.sha1(json.dumps(payload, sort_keys=True, default=str).encode()).hexdigest()[:10]
        p = os.path.join(REPLAY, "%s-%s-%s.json" % (self.pid, tag, h))
        with open(p, "w") as f:
            json.dump(payload, f, indent=1, default=str)
        return p

    def violation(self, tag, payload, what, no_input=False):
        """Record a violation unless the same (tag-class) was already reported."""
        self.vio_count = getattr(self, "vio_count", {})
        self.vio_count[tag] = self.vio_count.get(tag, 0) + 1
        if self.vio_count[tag] > 2:
            return                      # same class already reported twice; counted in evidence
        p = self.replay_file(tag, payload)
        self.violations.append((what, p, no_input))

    def known_finding(self, fid, what):
        if (fid, what) not in self.known_hits:
            self.known_hits.append((fid, what))

    def match_known(self, cls):
        """Return the known-finding entry whose 'class' equals cls (or None)."""
        for f in self.known:
            if f.get("class") == cls:
                return f
        return None

    def report(self, cls, payload, what):
        """A concrete failing input of class `cls`: KNOWN-FINDING if listed, else VIOLATION."""
        f = self.match_known(cls)
        if f is not None:
            self.known_finding(f["id"], f["what"])
        else:
            self.violation(cls, payload, what)

    def sample(self, s, limit=6):
        if len(self.cov["samples"]) < limit:
            self.cov["samples"].append(s)

    # -- proof part
    def proofs(self, extra_deps=()):
        hits = coq_forbidden_scan()
        r = coq_properties(self.pid, extra_deps)
        self.cov["obligations"] = len(r["theorems"])
        self.cov["discharged"] = len(r["theorems"]) if r["ok"] and not hits else 0
        self.cov["theorems"] = r["theorems"]
        self.cov["axioms_reported"] = r.get("all_axioms", [])
        self.cov["checker_cmd"] = ("make -k -j16 theories/Properties_%s.vo (full .vo build) && coqc -Q theories Bloch "
                                   "theories/Properties_%s.v (Print Assumptions captured) in /verif/coq" % (self.pid, self.pid))
        if hits:
            self.violation("forbidden", {"hits": hits, "theorem": "development hygiene"},
                           "forbidden construct in Coq development: %s" % hits[:3], no_input=True)
        if not r["ok"]:
            self.violation("proof", {"unchecked": r.get("failed"), "bad_axioms": r.get("bad_axioms"),
                                     "theorems": r["theorems"], "log_tail": r["log"][-3000:]},
                           "proof obligations of Properties_%s.v no longer check" % self.pid, no_input=True)
        return r["ok"] and not hits

    def finish(self, trusted_base, explanation=None):
        cov = self.cov
        cov.setdefault("trusted_base", trusted_base)
        if explanation:
            cov["explanation"] = explanation
        if not cov["samples"]:
            cov["samples"] = ["(no cases run)"]
        ev = {
            "property_id": self.pid, "tier": self.tier, "seed": self.seed, "level": self.level,
            "coverage": cov, "assumptions": self.assumptions,
            "wall_s": round(time.time() - self.t0, 2),
            "violations": len(self.violations),
            "known_findings_hit": [k[0] for k in self.known_hits],
            "violation_classes": getattr(self, "vio_count", {}),
            "notes": self.notes,
        }
        with open(os.path.join(EVID, "%s.json" % self.pid), "w") as f:
            json.dump(ev, f, indent=1, default=str)
        for fid, what in self.known_hits:
            log("KNOWN-FINDING: property=%s %s [%s]" % (self.pid, what, fid))
        for n in self.notes:
            log("NOTE: " + n)
        seen = set()
        for what, p, no_input in self.violations:
            if p in seen:
                continue
            seen.add(p)
            log("VIOLATION property=%s replay=%s%s" % (self.pid, p, " no-failing-input-found" if no_input else ""))
            log("  -> " + what)
        log("%s %s: %s (%.1fs)" % (self.pid, self.tier, "FAIL" if self.violations else "ok", time.time() - self.t0))
        return 1 if self.violations else 0
