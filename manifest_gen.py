#!/usr/bin/env python3
"""Regenerates MANIFEST.json from the table below (run after adding a check)."""
import json, os, subprocess
HOOK_COMMITS = ["b90bd7e", "6ee1992", "c78af28"]
CHECKS = {
 "C01": dict(
   level=("proof", "Coq theorems for every register size n, target, ordered control/target pair, matrix and state: the blocked pair loop of "
          "applySingleQubitGate equals the embedded operator I(x)..(x)M(x)..(x)I (any scalar type, axiom-free); cx's block/between/lowOffset "
          "loop with its bit-or index arithmetic equals the controlled-NOT permutation (axiom-free); over R the seven matrices equal qelib1's "
          "U(theta,phi,lambda) forms (rz up to an exhibited global phase), the rotations equal cos(t/2) I - i sin(t/2) P, and all are unitary. "
          "The model is tied to qasm_simulator.cpp and the evaluator's dispatcher by running the extracted model (binary64 instance) and the real "
          "simulator on every gate x target x basis state for n<=4 (quick) / n<=6 (thorough) plus random entangling circuits and generated Bloch "
          "programs, comparing all amplitudes.", "DESIGN.md §6 C01"),
   note="Trusted: Coq kernel + Coq.Reals axioms (sig_forall_dec, sig_not_dec, functional_extensionality_dep) for the matrix theorems only; extraction; "
        "OCaml/C++/Python glue; hooks H1,H3. Not modelled: binary64 rounding (1e-9 tolerance); exp as a power series.",
   technique="Coq proof (induction over loop enumeration, bit-level lemmas) + extraction-based correspondence with QasmSimulator"),
 "C20": dict(
   level=("proof", "13 Coq theorems (axiom-free) over a model of parseSemVer/compareSemVer/hasLatest/the --update decision/parseChecksum/"
          "the 72h notice throttle, for all strings, all checksums.txt contents and all invocation histories; the model is tied to "
          "update_manager.cpp by running the extracted model and the real functions (harness TU, stubbed clock/lookup) on ~6k (quick) / "
          "~55k (thorough) generated cases plus an independent statement-level oracle.", "DESIGN.md §6 C20"),
   note="Trusted: Coq kernel, extraction (ExtrOcamlBasic/ExtrOcamlString), OCaml/C++/Python glue, hook H5. Not modelled: network, TLS, tar, install, cache I/O failures.",
   technique="Coq proof over hand-written model + extraction-based correspondence with the C++ helpers"),
}
PENDING_REASON = "not yet built: the Coq model/theorems and correspondence for this property are scheduled (DESIGN.md §9); no check is registered until they exist"

def main():
    here = os.path.dirname(os.path.abspath(__file__))
    ids = ["C%02d" % i for i in range(1, 21)]
    m = {"version": 1, "setup_cmd": "./setup.sh",
         "hooks": {"guard": "BLOCH_VERIF",
                   "enable": "cmake -S /repo -B /verif/build/hooked -G Ninja -DCMAKE_BUILD_TYPE=Release -DCMAKE_CXX_FLAGS=-DBLOCH_VERIF (run incrementally by ./check on every invocation)",
                   "baseline_off_cmd": "cmake -S /repo -B /repo/_build -G Ninja && cmake --build /repo/_build -j16 && ctest --test-dir /repo/_build -j8 --timeout 900",
                   "source_commits": HOOK_COMMITS, "add_only": True},
         "engines": [
             {"name": "coq", "path": "coq/", "serves_properties": sorted(CHECKS), "kind_free_text": "Coq 8.16.1 development: hand-written Gallina models + theorems (theories/Properties_<id>.v)"},
             {"name": "correspondence", "path": "check", "serves_properties": sorted(CHECKS), "kind_free_text": "extracted OCaml model vs. the C++ built from /repo's working tree (-DBLOCH_VERIF) on generated inputs"}],
         "checks": [], "not_applicable": [],
         "notes": "See DESIGN.md. known_findings.json lists recorded defects and fixes; seeded/ holds validated breaking changes."}
    for i in ids:
        if i in CHECKS:
            c = CHECKS[i]
            m["checks"].append({
                "property_id": i, "quick_cmd": "./check %s --tier quick" % i, "thorough_cmd": "./check %s --tier thorough" % i,
                "evidence_file": "evidence/%s.json" % i, "replay_cmd_template": "./check %s --replay {path}" % i, "engine": "coq",
                "level_claimed": {"category": c["level"][0], "text": c["level"][1], "design_ref": c["level"][2]},
                "level_note": c["note"], "technique": c["technique"]})
        else:
            m["not_applicable"].append({"property_id": i, "reason": PENDING_REASON})
    json.dump(m, open(os.path.join(here, "MANIFEST.json"), "w"), indent=1)
    subprocess.call(["python3-vt", "-c", "import json,jsonschema;jsonschema.validate(json.load(open('%s/MANIFEST.json')),json.load(open('/root/.vp/MANIFEST.schema.json')));print('manifest valid')" % here])
main()
