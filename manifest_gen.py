#!/usr/bin/env python3
"""Regenerates MANIFEST.json from the table below (run after adding a check)."""
import json, os, subprocess
HOOK_COMMITS = ["b90bd7e", "6ee1992", "c78af28", "9917abb", "7a991b8", "bf9fb1e", "b78e961", "cc6b5af"]
CHECKS = {
 "C01": dict(
   level=("proof", "Coq theorems for every register size n, target, ordered control/target pair, matrix and state: the blocked pair loop of "
          "applySingleQubitGate equals the embedded operator I(x)..(x)M(x)..(x)I (any scalar type, axiom-free); cx's block/between/lowOffset "
          "loop with its bit-or index arithmetic equals the controlled-NOT permutation (axiom-free); over R the seven matrices equal qelib1's "
          "U(theta,phi,lambda) forms (rz up to an exhibited global phase), the rotations equal cos(t/2) I - i sin(t/2) P, and all are unitary. "
          "The model is tied to qasm_simulator.cpp and the evaluator's dispatcher by running the extracted model (binary64 instance) and the real "
          "simulator on every gate x target x basis state for n<=4 (quick) / n<=6 (thorough) plus random entangling circuits and generated Bloch "
          "programs, comparing all amplitudes.", "DESIGN.md §6 C01"),
   note="Trusted: Coq kernel + Coq.Reals axioms (sig_forall_dec, sig_not_dec, functional_extensionality_dep) for the matrix theorems only; extraction; "
        "OCaml/C++/Python glue; hooks H1,H3. Not modelled: binary64 rounding (1e-9 tolerance); exp as a power series.",
   technique="Coq proof (induction over loop enumeration, bit-level lemmas) + extraction-based correspondence with QasmSimulator"),
 "C02": dict(
   level=("proof", "Coq theorems over R for every register size, measured index, unit state and draw in [0,1): outcome 1 iff the draw is below "
          "the squared norm of the bit=1 component (the Born interval), the sampled branch has positive probability, the post state is the "
          "projection divided by sqrt(p) and has unit norm, an immediate re-read and any perfectly correlated qubit give the same value with "
          "certainty; and (axiom-free, evaluator model) the returned bit, the stored last-measurement and the simulator outcome coincide. Tied "
          "to the code by programs with injected draws either side of the Born probability, comparing echoed bit, stored value, flags and every "
          "post-measurement amplitude; thorough adds a chi-square test of the real generator.", "DESIGN.md §6 C02"),
   note="Trusted: Coq kernel + Coq.Reals axioms; extraction; glue; hooks H1-H3. Assumed: uniform RNG; binary64 rounding (draws kept 1e-7 from p1).",
   technique="Coq proof over R (indexed sums) + extraction-based correspondence with injected draws"),
 "C03": dict(
   level=("proof", "Coq theorems: every reachable simulator state (any interleaving of allocate/gates/cx/measure/reset, any angles, draws in "
          "[0,1)) has 2^n amplitudes and unit norm (induction over the history; unitarity of the pair loop, swaps, collapse and the sampled "
          "reset with a reindexing permutation); allocation keeps existing amplitudes; in every history of the evaluator's bookkeeping "
          "(declare / release / recycle) the indices behind live declarations and the free list are pairwise distinct and in range "
          "(axiom-free). Tied by random histories incl. object destruction and index reuse, checking the implementation's vector for size, "
          "finiteness and norm and comparing state, free list and flags with the model; corpus of aliasing programs must be rejected.", "DESIGN.md §6 C03"),
   note="Trusted: Coq kernel + Coq.Reals axioms (norm part); extraction; glue; hooks H1-H3. Not modelled: rounding; hash-order of simultaneous destructions.",
   technique="Coq proof (invariant by induction over op histories) + extraction-based correspondence"),
 "C04": dict(
   level=("proof", "Coq theorems over R for every n, target and unit state: after reset no amplitude remains on target=1, the norm is 1, and "
          "p1*rho(branch 1)+(1-p1)*rho(branch 0) equals the reduced density matrix of the other qubits before the reset, entry by entry. "
          "Tied by (a) a statement-level check of that identity on the real simulator with both branches forced, and (b) programs resetting "
          "entangled qubits by statement, function, object destruction and index reuse compared amplitude by amplitude with the model.", "DESIGN.md §6 C04"),
   note="Trusted: Coq kernel + Coq.Reals axioms; extraction; glue; hooks. Averaging over runs = two-branch identity; RNG uniformity assumed.",
   technique="Coq proof over R + extraction-based correspondence + direct reduced-density check on the implementation"),
 "C05": dict(
   level=("proof", "Coq theorems: an independent reader of the emitted OpenQASM subset recovers from emit(n, ops) exactly n and ops "
          "for every n and op list whose angle texts are fixed-point literals (round trip: nothing lost, duplicated or reordered); the log equals "
          "the list of operations that succeeded, in order, for every history; every logged operand is below the register size and cx operands "
          "are distinct in every history the evaluator can produce; and (over the reals, using the standard library's real-number axioms) replaying "
          "exactly the logged operations with the same draws on a register declared up front yields the simulator record the lazily allocating run "
          "ends in, for every scripted history. Tied by generated programs: emitted text equals the model's byte for byte; the "
          "implementation's own text is parsed by the extracted reader and replayed by the extracted simulator with the recorded outcomes and "
          "compared with the simulator's final amplitudes; the CLI's .qasm file equals --emit-qasm output.", "DESIGN.md §6 C05"),
   note="Trusted: Coq kernel; extraction; glue; hooks. Axioms of the replay theorem: ClassicalDedekindReals.sig_forall_dec, sig_not_dec, functional_extensionality_dep (Coq.Reals); the others are axiom-free. binary64 rounding is observed, not modelled.",
   technique="Coq proof (parser/printer round trip, history invariant) + extraction-based replay of the implementation's own output"),
 "C06": dict(
   level=("proof", "Coq theorems (axiom-free) on the evaluator/simulator flag model for every op history: both flag vectors agree, a gate/cx/"
          "measure on a measured qubit is refused with the located error, reset re-enables, an unmeasured qubit is never refused, measuring an "
          "array marks every element, the simulator's position-less check is unreachable. Tied by all op sequences up to length 2 (quick) / 3 "
          "(thorough) over a scalar and a 2-element register rendered through every access path, plus random histories.", "DESIGN.md §6 C06"),
   note="Trusted: Coq kernel; extraction; glue; hooks H1-H3. Only the qubit-relevant part of the evaluator is modelled.",
   technique="Coq proof (state-machine invariant) + exhaustive-small extraction-based correspondence"),
 "C07": dict(
   level=("proof", "Coq theorems (axiom-free, for an arbitrary float type) about a reference interpreter written from the language guide: every "
          "binary/unary operator and cast applied to well-formed values of documented operand types yields a value of exactly the documented result "
          "type (int->long->float promotion, '/' always float, '%' integer only, comparisons/logic boolean, bit/bit[] bitwise) or a documented runtime "
          "error and is never stuck; array literal/element conversions are the documented ones; writing one variable changes no other (array copies are "
          "independent); a call binds its arguments in a fresh environment and returns the caller's untouched. The implementation is tied to the "
          "interpreter by differential execution of type-directed generated programs (all operand type pairs, nesting of control flow, call graphs, "
          "recursion, array copies, bounds and arithmetic errors), comparing echoed output and the runtime error raised. Whole-program type soundness "
          "is proved too: a class-free program accepted by the reference checker never reaches an undefined operation, for every fuel.", "DESIGN.md §6 C07"),
   note="Trusted: Coq kernel; extraction; OCaml float instance (IEEE double, printf %g/%.1f); generator renders one tree twice; drv_prog. Results the "
        "documentation does not fix (long overflow, float->integer out of range) are flagged by the interpreter and skipped.",
   technique="Coq proof (case analysis over the value universe) + extraction-based differential testing of generated programs"),
 "C08": dict(
   level=("proof", "Coq theorems (axiom-free) on the object layer of the reference interpreter, for every class table: the method a virtual call reaches is "
          "declared in the receiver's dynamic chain and no class nearer to the dynamic class declares that signature (most-derived override); the "
          "overload chosen is the unique candidate of least conversion cost; the inheritance chain is derived-first (the order destructors walk, "
          "constructors recurse to the base before their own initialisers and body); a static field is one cell per declaring class and writing it "
          "changes no other. The whole-program statement is tied to the implementation by differential execution of generated class hierarchies whose "
          "every constructor, method and destructor echoes a trace: same construction order, overload, dispatch target and destructor order. "
          "Generic classes are not modelled (partial).", "DESIGN.md §6 C08"),
   note="Trusted: Coq kernel; extraction; glue; generator renders one hierarchy twice. 'Most specific' is read as least total conversion cost "
        "(exact 0, int->long 1, inheritance distance, null 3), ties ambiguous. Simultaneous release of several destructor-bearing objects is unspecified and skipped.",
   technique="Coq proof (list/chain induction) + extraction-based differential testing of generated class hierarchies"),
 "C09": dict(
   level=("proof", "Coq theorems on the lexically scoped reference interpreter. For programs without classes the property itself is proved: giving "
          "every function its own injective renaming of locals and parameters (one function renamed to fresh or to colliding names, the others left "
          "alone, being the special case) leaves every run unchanged, for every fuel - a lock-step simulation between the original and the renamed "
          "program over all class-free syntax (uses functional extensionality to identify the function tables). For all programs (axiom-free): name "
          "lookup reads the running frame, then the enclosing object, then the enclosing class's statics and is unaffected by suspended callers; an "
          "assignment never changes a suspended caller's environment; a call returns the caller's environment and class context untouched; renaming "
          "commutes with lookup/update/declare and preserves the referenced-object set. The implementation is decided by (1) differential execution "
          "against the interpreter on class and function programs whose locals, parameters and fields share one name pool and (2) renaming 1-3 "
          "locals/parameters of one function, method or constructor to fresh and to colliding names and requiring identical output. For programs with "
          "classes the interpreter-wide renaming statement is not a theorem (partial).", "DESIGN.md §6 C09"),
   note="Trusted: Coq kernel + functional_extensionality_dep (whole-program statement only); extraction; glue; the Python renamer (capture-free by construction).",
   technique="Coq proof (lock-step simulation under renaming; frame-level scoping invariants) + extraction-based differential testing + metamorphic alpha-renaming on the implementation"),
 "C10": dict(
   level=("proof", "Coq theorems on the reference interpreter: lookup by name in a duplicate-free declaration list is invariant under permutation "
          "(axiom-free); hence evaluation from any state, and every whole run, is identical for any permutation of the functions and - for class tables "
          "whose static fields need no initialisation order - any permutation of classes and functions, including a derived class before its base and a "
          "function after its first use (uses functional extensionality). The implementation is checked against the property directly: every generated "
          "program (class chains up to depth 4, helper functions, forward calls with arguments) is run in its generated, reversed, rotated and random "
          "orders and acceptance, diagnostic category and output must coincide; it is also compared with the interpreter.", "DESIGN.md §6 C10"),
   note="Trusted: Coq kernel + functional_extensionality_dep; extraction; glue. Static initialisers run in class order in the model; the generator keeps "
        "them order-insensitive (literals).",
   technique="Coq proof (permutation invariance of name lookup) + metamorphic permutation testing on the implementation + differential testing"),
 "C11": dict(
   level=("proof", "Coq theorems (axiom-free) about a mark-and-sweep collector over the reference interpreter's heap with the interpreter's roots (running "
          "frame, suspended callers, pending operands, statics, in-flight return value): whenever marking completes every object reachable from a root is "
          "marked; a collection at any state leaves every reachable object exactly as it was, touches nothing but the heap, and whatever it clears was "
          "unreachable. A second model (Lang/GcPin.v) is the implementation's rule for objects whose release is observable (user destructor, qubits, @tracked "
          "fields): the kept set, computed by iterating 'an object with a field referring into the set joins it', holds every object that reaches an "
          "observable one - or a live one: the seeds are the observable and the live objects - so what a sweep wipes reaches none and refers to nothing kept - for every heap graph. Hook H7 logs the heap graph, kept set and "
          "swept set of every collection of the generated programs; the extracted iteration must give the same kept set and the swept set must be exactly "
          "the unreached, unobservable objects outside the kept set's descendants. The interpreter itself has no tracing collector, so its output is schedule independent by construction. The implementation is tied "
          "to it through hook H4: each generated program (graphs held by variables, fields, statics, pending arguments, temporaries, return values; bursts "
          "of allocation at those points; garbage cycles) is run with no collection, a collection at every statement boundary, masked subsets and the "
          "default triggers; all outputs must coincide and equal the interpreter's. Race freedom and shutdown of the timer thread are observed with "
          "ThreadSanitizer on the unhooked build (sampled, not enumerated: partial).", "DESIGN.md §6 C11"),
   note="Trusted: Coq kernel; extraction; glue; hooks H4 and H7; TSan runtime. Not every subset of boundaries is enumerated (masks are periodic); thread interleavings are sampled.",
   technique="Coq proof (work-list marking invariant; closure of the kept-set iteration) + per-collection correspondence of the kept and swept sets + schedule-forcing differential testing + ThreadSanitizer runs"),
 "C12": dict(
   level=("proof", "Coq theorems (axiom-free) on the reference interpreter: int arithmetic of any two in-range operands yields an in-range int; long "
          "arithmetic yields an in-range long or is flagged as outside the documentation; x % -1 = 0 for every x including the most negative long; "
          "division and modulo by zero are always the documented runtime errors; an element is produced only for an index inside the array; every "
          "well-typed operator application is a value or a documented error, and a whole class-free program accepted by the reference checker never gets stuck (for every fuel). Memory safety, teardown and exception shape are run-time "
          "behaviour the model cannot exhibit: they are observed (not proved) by running an edge corpus (every pair of extreme int/long operands under "
          "every operator, extreme indices, out-of-range literals/sizes/conversions, empty arrays, recursion) and generated programs with extreme "
          "literals on an ASan+UBSan build, through the harness and the real CLI, and comparing outcome with the interpreter (partial).", "DESIGN.md §6 C12"),
   note="Trusted: Coq kernel; extraction; glue; sanitizer runtime. Signed-overflow/float-cast UBSan checks disabled (outside the documented range, not a crash). "
        "Class-related crash surfaces are exercised by the C08/C11 generators on the same build when those checks run.",
   technique="Coq proof (integer-range lemmas over Z) + sanitizer-instrumented differential execution and CLI shape check"),
 "C13": dict(
   level=("proof", "Coq theorems (axiom-free) on the front-end models: the lexer terminates on every string with a token list or one positioned error; every "
          "successful step of the expression parser (assignment, Pratt, prefix, primary, argument/element lists) consumes at least one token and the "
          "binary/postfix loop never gives tokens back, so no parser loop can spin; the import traversal terminates on every import graph. Statement, "
          "declaration and class grammar and the semantic analyser are not modelled: for them, and for crashes / out-of-bounds reads / analyser reuse, the "
          "property is observed by mutation on an ASan+UBSan build - single-token deletion, insertion, replacement, swap and truncation of generated "
          "class, classical and quantum programs, random bytes, deep nesting, inheritance chains and cycles - each outcome must be acceptance or exactly one "
          "categorised diagnostic within the time limit, rejected programs are followed by a valid one on the same analyser instance, and accept/reject "
          "of mutated expression token lists is compared with the extracted parser model (partial).", "DESIGN.md §6 C13"),
   note="Trusted: Coq kernel; extraction; glue; sanitizer runtime. Bounded input length and nesting (<= 200) as the property states.",
   technique="Coq proof (fuel-free termination / progress of lexer, expression parser, loader models) + mutation testing on a sanitizer build + model/implementation accept-reject comparison"),
 "C14": dict(
   level=("proof", "Coq theorems (axiom-free) on a model of the expression parser (assignment level, Pratt loop with the binding-power table, "
          "prefix, primary, casts, argument and array-literal lists): for every well-parenthesised tree over all expression forms, parsing its "
          "rendering returns the tree; add_parens inserts exactly the parentheses the precedence/associativity rules require, yields a "
          "well-parenthesised tree for every tree and only adds parentheses - so minimal rendering then parsing is the identity on trees. "
          "Tied by rendering every operator pair/nesting at size 3 and random trees up to size 12 with the extracted add_parens/render, parsing "
          "them with the real parser and comparing dumped ASTs node for node. Statements: a model of parseStatement (the declaration look-ahead on raw "
          "tokens, types with dimensions and qualified names, final/@tracked declarations, return, if/else, for with every initialiser, while, echo, "
          "reset, measure, destroy, the conditional statement, assignment and expression statements, blocks) with the theorem that every well-formed "
          "statement tree, nested to any depth, is parsed back from its rendering; tied by generated statement trees whose dump from the real parser "
          "must equal the model's parse, and by single-token deletions on which both must agree about acceptance. Generic type arguments in "
          "declarations, multi-declarators, functions and class members are covered by a 531-form syntax matrix only (partial).", "DESIGN.md §6 C14"),
   note="Trusted: Coq kernel; extraction; s-expression/token-spelling glue; AST dump through the public Lexer/Parser API. Fuel is existentially "
        "quantified in the theorem; the driver runs with 4*tokens+8 and reports if that is not enough.",
   technique="Coq proof (mutual fuelled parsers for expressions and statements, 'eventually' induction over trees) + extraction-based round-trip correspondence and token-deletion differential"),
 "C15": dict(
   level=("proof", "Coq theorems (axiom-free) on a model of lexer.cpp for every source string: tokens and skipped trivia concatenate to the "
          "source, trivia is only whitespace and // comments, every token's reported line/column is the position of its first character "
          "(computed independently by scanning from the start) and the source continues there with the token's text, and the lexer terminates. "
          "Tied by all ordered pairs (thorough: also triples) of ~80 atoms without separators plus random byte sequences: token lists and "
          "error positions compared with the extracted model, and the property checked directly on the implementation's output.", "DESIGN.md §6 C15"),
   note="Trusted: Coq kernel; extraction; glue (public Lexer API). C-locale character classes assumed.",
   technique="Coq proof (structural/fuelled recursion, prefix-position invariant) + extraction-based correspondence + direct positional oracle"),
 "C16": dict(
   level=("proof", "Coq theorems (axiom-free) on the reference checker for the classical core: it is compositional - a block, a statement list, a branch, a loop "
          "body or header is accepted only if every part is accepted in the environment of its position - and at every leaf a final variable is never a legal "
          "target (statement, nested assignment expression, postfix) and an undeclared name never typeable; and the rules suffice: a class-free program the checker "
          "accepts never reaches an undefined operation (type soundness, by invariants over environments, for every fuel). The analyser is tied to the checker by differential acceptance on valid programs with one rule-directed edit at "
          "a random position (type of any expression slot, variable swaps, final, declared/return types incl. void, return shape, repeated or moved "
          "declarations, void calls used six ways, finals written six ways). For the class layer (Lang/ClassTyping.v: access control, final fields, "
          "static context, abstract/static classes, subclass assignability, null, overloads) it is proved that accepting a program is accepting every body in the "
          "context of its position and that the rule for each expression form holds at every position of an accepted body (any statement nesting, loop header "
          "or step, any expression depth); tied by differential acceptance on class programs with one class-rule edit. Soundness of the class layer against the "
          "object interpreter is not proved; @quantum/@shots and positions the generators do not reach are checked against the rule text by violating/repaired "
          "pairs (partial).", "DESIGN.md §6 C16"),
   note="Trusted: Coq kernel; extraction; glue; the pair corpus. Programs the surface syntax cannot express (Parse errors after mutation) are skipped.",
   technique="Coq proof (compositionality of the checker) + extraction-based differential acceptance testing + rule-text pair corpus"),
 "C17": dict(
   level=("proof", "Coq theorems (axiom-free): a shot's table counts each scope exit once (a variable's counts sum to its number of exits, each "
          "outcome to its occurrences), tables are well-formed, the aggregate is the entry-wise sum of the per-shot tables for any number of shots, "
          "probabilities count/total lie in [0,1] and sum to 1 (over Q), an outcome is the index-ordered bit string or '?', @shots wins over "
          "--shots, and the echo policy. Tied by running the real CLI with injected draws on generated programs (tracked locals, loop- and "
          "helper-scoped tracked values, tracked object fields, partial/re-measured histories, every flag/annotation/echo combination) and "
          "comparing its table, shot count and echo line count with the extracted model.", "DESIGN.md §6 C17"),
   note="Trusted: Coq kernel; extraction; glue; hook H2 (draw file). --echo=none read as documented (always suppress).",
   technique="Coq proof (finite-map/table algebra, Q arithmetic) + extraction-based correspondence through the real CLI"),
 "C18": dict(
   level=("proof", "Coq theorems (axiom-free): on the reference interpreter every shot of an N-shot run is the fresh run (a run is a function of the program from "
          "the empty state); a constant expression evaluates to the same value or error in every state and changes nothing, so the array size the implementation "
          "caches in the shared syntax tree is the same in every shot. The implementation is decided directly: each generated program (static counters, generic "
          "specialisations, const-sized arrays, float formatting, objects owning qubits, resets and releases with injected draws) is executed 3 times on one "
          "parsed and analysed tree, twice after a second analysis, and as fresh processes; per-shot output, consumed draws and outcomes, final amplitudes, "
          "measurement flags, free list, QASM and tracked counts must coincide, and fresh runs agree with the interpreter.", "DESIGN.md §6 C18"),
   note="Trusted: Coq kernel; extraction; glue; hooks H1-H3; drv_prog's shot loop mirrors cli.cpp (fresh RuntimeEvaluator per shot).",
   technique="Coq proof (state independence of constant expressions) + metamorphic N-shot vs fresh-run comparison on the implementation"),
 "C19": dict(
   level=("proof", "Coq theorems (axiom-free) on a model of module_loader.cpp over an abstract file system, for every tree, search-path list, "
          "working directory and entry: a successful load lists each module once, places every imported module (symbol or wildcard, importer "
          "excepted) before its importer, has checked that each declares the imported package, contains the entry and exactly one main; symbol "
          "resolution returns the first root in the documented order (search paths first for bloch.*) that has the file, a wildcard import the whole "
          "package directory of the first root that holds a module; the implicitly loaded root module bloch.lang.Object is held to the package rule too; the traversal "
          "terminates on every import graph (cyclic or not). Tied by random and hand-written trees written to disk and loaded through the public "
          "ModuleLoader, comparing merged order or diagnostic class/category with the extracted model. 'Import cycle' is never a false alarm (it is "
          "answered only when some module reaches itself through imports as they resolve on that file system), and a load that succeeded has no "
          "cycle through any module it loaded.", "DESIGN.md §6 C19"),
   note="Trusted: Coq kernel; extraction; glue. std::filesystem canonicalisation, symlinks, '..' not modelled (generated trees are canonical; dangling symlinks and other non-module entries are added to a third of them and must be ignored). The implementation refuses import chains deeper than 1000 modules; the model has no bound.",
   technique="Coq proof (DFS invariant with fuel, parameterised recursion) + extraction-based correspondence on real directory trees"),
 "C20": dict(
   level=("proof", "20 Coq theorems (axiom-free) over a model of parseSemVer/compareSemVer/hasLatest/the --update decision/parseChecksum/"
          "checksumVerdict/the 72h notice throttle, for all strings, all checksums.txt contents and all invocation histories: a string is a version "
          "exactly when it is [v]MAJOR[.MINOR[.PATCH]][-suffix] (so a commit hash or '2.x' is never acted on), install/announce only if strictly "
          "newer, an archive is installed only after verification against the digest listed for exactly its name (the name of an entry is the whole rest of its line), notices are 72 h apart and "
          "absent when checks are disabled or the cache cannot be written; the model is tied to "
          "update_manager.cpp by running the extracted model and the real functions (harness TU, stubbed clock/lookup) on ~6k (quick) / "
          "~55k (thorough) generated cases plus an independent statement-level oracle.", "DESIGN.md §6 C20"),
   note="Trusted: Coq kernel, extraction (ExtrOcamlBasic/ExtrOcamlString), OCaml/C++/Python glue, hooks H5, H6. Not modelled: network, TLS, tar, install; of cache I/O failures only 'the cache cannot be written or keeps nothing' is modelled; the model's clock is in whole seconds, millisecond histories are run against the statement.",
   technique="Coq proof over hand-written model + extraction-based correspondence with the C++ helpers"),
}
PENDING_REASON = "not yet built: the Coq model/theorems and correspondence for this property are scheduled (DESIGN.md §9); no check is registered until they exist"

def main():
    here = os.path.dirname(os.path.abspath(__file__))
    ids = ["C%02d" % i for i in range(1, 21)]
    m = {"version": 1, "setup_cmd": "./setup.sh",
         "hooks": {"guard": "BLOCH_VERIF",
                   "enable": "cmake -S /repo -B /verif/build/hooked -G Ninja -DCMAKE_BUILD_TYPE=Release -DCMAKE_CXX_FLAGS=-DBLOCH_VERIF (run incrementally by ./check on every invocation)",
                   "baseline_off_cmd": "cmake -S /repo -B /repo/_build -G Ninja && cmake --build /repo/_build -j16 && ctest --test-dir /repo/_build -j8 --timeout 900",
                   "source_commits": HOOK_COMMITS, "add_only": True},
         "engines": [
             {"name": "coq", "path": "coq/", "serves_properties": sorted(CHECKS), "kind_free_text": "Coq 8.16.1 development: hand-written Gallina models + theorems (theories/Properties_<id>.v)"},
             {"name": "correspondence", "path": "check", "serves_properties": sorted(CHECKS), "kind_free_text": "extracted OCaml model vs. the C++ built from /repo's working tree (-DBLOCH_VERIF) on generated inputs"}],
         "checks": [], "not_applicable": [],
         "notes": "See DESIGN.md. known_findings.json lists recorded defects and fixes; seeded/ holds validated breaking changes."}
    for i in ids:
        if i in CHECKS:
            c = CHECKS[i]
            m["checks"].append({
                "property_id": i, "quick_cmd": "./check %s --tier quick" % i, "thorough_cmd": "./check %s --tier thorough" % i,
                "evidence_file": "evidence/%s.json" % i, "replay_cmd_template": "./check %s --replay {path}" % i, "engine": "coq",
                "level_claimed": {"category": c["level"][0], "text": c["level"][1], "design_ref": c["level"][2]},
                "level_note": c["note"], "technique": c["technique"]})
        else:
            m["not_applicable"].append({"property_id": i, "reason": PENDING_REASON})
    json.dump(m, open(os.path.join(here, "MANIFEST.json"), "w"), indent=1)
    subprocess.call(["python3-vt", "-c", "import json,jsonschema;jsonschema.validate(json.load(open('%s/MANIFEST.json')),json.load(open('/root/.vp/MANIFEST.schema.json')));print('manifest valid')" % here])
main()
