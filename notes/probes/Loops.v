From Coq Require Import List Arith Lia PeanoNat Bool.
Import ListNotations.
Require Import P.Upd.

Lemma filter_all {A} (P : A -> bool) l : (forall x, In x l -> P x = true) -> filter P l = l.
Proof. induction l as [|a l IH]; intros H; simpl; auto. rewrite H by (simpl; auto). f_equal. apply IH. intros; apply H; simpl; auto. Qed.
Lemma filter_none {A} (P : A -> bool) l : (forall x, In x l -> P x = false) -> filter P l = [].
Proof. induction l as [|a l IH]; intros H; simpl; auto. rewrite H by (simpl; auto). apply IH. intros; apply H; simpl; auto. Qed.
Lemma seq_as_map a n : seq a n = map (fun j => a + j) (seq 0 n).
Proof. revert a; induction n as [|n IH]; intros a; simpl; auto. f_equal; [lia|]. rewrite IH, <- (seq_shift n 0), map_map. apply map_ext. intros; lia. Qed.

Section Loops.
  Variable s : nat.
  Hypothesis s_pos : 0 < s.
  Definition lowhalf (k : nat) : bool := k mod (2 * s) <? s.
  Definition loops (nb : nat) : list nat :=
    flat_map (fun b => map (fun j => b * (2 * s) + j) (seq 0 s)) (seq 0 nb).

  Lemma loops_filter nb : loops nb = filter lowhalf (seq 0 (nb * (2 * s))).
  Proof.
    induction nb as [|nb IH].
    - reflexivity.
    - unfold loops in *. rewrite seq_S, flat_map_app. cbn [flat_map]. rewrite app_nil_r, IH. cbn [plus].
      replace (S nb * (2 * s)) with (nb * (2 * s) + (s + s)) by lia.
      rewrite seq_app, filter_app. f_equal. cbn [plus].
      rewrite seq_app, filter_app.
      rewrite filter_all, filter_none.
      + rewrite app_nil_r. apply eq_sym, seq_as_map.
      + intros x Hx. apply in_seq in Hx. unfold lowhalf. apply Nat.ltb_ge.
        replace x with ((x - nb * (2*s)) + nb * (2 * s)) by lia.
        rewrite Nat.mod_add by lia. rewrite Nat.mod_small by lia. lia.
      + intros x Hx. apply in_seq in Hx. unfold lowhalf. apply Nat.ltb_lt.
        replace x with ((x - nb * (2*s)) + nb * (2 * s)) by lia.
        rewrite Nat.mod_add by lia. rewrite Nat.mod_small by lia. lia.
  Qed.

  Lemma In_loops nb k : In k (loops nb) <-> k < nb * (2 * s) /\ k mod (2 * s) < s.
  Proof. rewrite loops_filter, filter_In, in_seq. unfold lowhalf. rewrite Nat.ltb_lt. lia. Qed.

  Lemma Disj_loops nb : Disj s (loops nb).
  Proof.
    split.
    - rewrite loops_filter. apply NoDup_filter, seq_NoDup.
    - intros a b Ha Hb E. apply In_loops in Ha, Hb. subst a.
      destruct Ha as [_ Ha]. destruct Hb as [_ Hb].
      rewrite Nat.add_mod in Ha by lia.
      rewrite (Nat.mod_small s) in Ha by lia.
      rewrite (Nat.mod_small (b mod (2*s) + s)) in Ha by lia. lia.
  Qed.
End Loops.

(* the C++ nested loop, as written, equals the fold over the flattened list *)
Lemma fold_left_flat_map {A B C} (f : A -> C -> A) (g : B -> list C) l a :
  fold_left (fun acc b => fold_left f (g b) acc) l a = fold_left f (flat_map g l) a.
Proof. revert a; induction l as [|b l IH]; intros a; simpl; auto. rewrite fold_left_app. apply IH. Qed.

Lemma fold_left_map' {A B C} (f : A -> C -> A) (g : B -> C) l a :
  fold_left f (map g l) a = fold_left (fun acc x => f acc (g x)) l a.
Proof. revert a; induction l as [|b l IH]; intros a; simpl; auto. Qed.
Lemma fold_left_ext' {A B} (f g : A -> B -> A) l a : (forall x y, f x y = g x y) -> fold_left f l a = fold_left g l a.
Proof. intros H; revert a; induction l as [|b l IH]; intros a; simpl; auto. rewrite H. apply IH. Qed.

Section Apply1.
  Variable A : Type. Variable d : A. Variables f0 f1 : A -> A -> A.
  Definition apply_pairs (q : nat) (st : list A) : list A :=
    let s := 2 ^ q in
    fold_left (fun st b => fold_left (fun st j => pair_step A d f0 f1 s st (b * (2 * s) + j)) (seq 0 s) st)
              (seq 0 (length st / (2 * s))) st.

  Definition bitq (q k : nat) : bool := negb (k mod (2 * 2 ^ q) <? 2 ^ q).
  Definition embed_spec (q : nat) (st : list A) (k : nat) : A :=
    if bitq q k then f1 (nth (k - 2 ^ q) st d) (nth k st d)
    else f0 (nth k st d) (nth (k + 2 ^ q) st d).

  Theorem apply_pairs_spec n q st : q < n -> length st = 2 ^ n ->
    forall k, k < 2 ^ n -> nth k (apply_pairs q st) d = embed_spec q st k.
  Proof.
    intros Hq Hlen k Hk. unfold apply_pairs. cbv zeta.
    set (s := 2 ^ q). assert (s_pos : 0 < s) by (unfold s; apply Nat.neq_0_lt_0, Nat.pow_nonzero; lia).
    assert (Hdiv : 2 ^ n = 2 ^ (n - q - 1) * (2 * s)).
    { unfold s. replace (2 * 2 ^ q) with (2 ^ (S q)) by (cbn; lia). rewrite <- Nat.pow_add_r. f_equal. lia. }
    rewrite Hlen, Hdiv, Nat.div_mul by lia. set (nb := 2 ^ (n - q - 1)) in *.
    rewrite (fold_left_ext' _ (fun acc b => fold_left (pair_step A d f0 f1 s) (map (fun j => b * (2 * s) + j) (seq 0 s)) acc))
      by (intros x y; now rewrite fold_left_map').
    rewrite (fold_left_flat_map (pair_step A d f0 f1 s) (fun b => map (fun j => b * (2 * s) + j) (seq 0 s))).
    change (flat_map _ _) with (loops s nb).
    rewrite (fold_pair_spec A d f0 f1 s s_pos).
    - unfold pair_spec, embed_spec, bitq. fold s.
      destruct (memb k (loops s nb)) eqn:E.
      + apply memb_In, (In_loops s s_pos) in E. destruct E as [_ E].
        apply Nat.ltb_lt in E. rewrite E. reflexivity.
      + assert (Hhi : ~ (k mod (2 * s) < s)).
        { intros H. assert (In k (loops s nb)) by (apply (In_loops s s_pos); lia).
          apply memb_In in H0. congruence. }
        assert (Hb : (k mod (2 * s) <? s) = false) by (apply Nat.ltb_ge; lia). rewrite Hb. cbn [negb].
        assert (Hsk : s <= k). { destruct (Nat.le_gt_cases s k); auto. rewrite Nat.mod_small in Hhi by lia. lia. }
        apply Nat.leb_le in Hsk as Hsk'. rewrite Hsk'. cbn [andb].
        assert (In (k - s) (loops s nb)).
        { apply (In_loops s s_pos). split; [lia|].
          assert (k mod (2*s) < 2 * s) by (apply Nat.mod_upper_bound; lia).
          replace k with ((k - s) + s) in Hhi, H by lia.
          rewrite Nat.add_mod in Hhi, H by lia. rewrite (Nat.mod_small s) in Hhi, H by lia.
          assert ((k - s) mod (2*s) < 2 * s) by (apply Nat.mod_upper_bound; lia).
          destruct (Nat.lt_ge_cases ((k - s) mod (2*s)) s); auto.
          exfalso. apply Hhi.
          set (r := (k - s) mod (2 * s)) in *. clearbody r.
          replace (r + s) with ((r - s) + 1 * (2 * s)) by lia.
          rewrite Nat.mod_add by lia. rewrite Nat.mod_small; lia. }
        apply memb_In in H. rewrite H. reflexivity.
    - apply Disj_loops; auto.
    - intros i Hi. apply (In_loops s s_pos) in Hi. destruct Hi as [Hi1 Hi2].
      rewrite Hlen, Hdiv.
      (* i < nb*2s and i mod 2s < s  ->  i + s < nb*2s *)
      assert (i = 2 * s * (i / (2 * s)) + i mod (2 * s)) by (apply Nat.div_mod; lia).
      assert (i / (2 * s) < nb) by (apply Nat.div_lt_upper_bound; lia).
      nia.
  Qed.
End Apply1.
Print Assumptions apply_pairs_spec.
