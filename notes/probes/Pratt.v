From Coq Require Import List Arith Lia PeanoNat Bool.
Import ListNotations.

(* cut-down Bloch expression grammar: atoms, left-assoc binary ops with (lbp, lbp+1),
   prefix ops at 14, a postfix marker at 16, parentheses as explicit nodes *)
Inductive tok := TId (n : nat) | TOp (o : nat) | TPre (p : nat) | TPost | TL | TR | TOther.
Inductive expr := Var (n : nat) | Bin (o : nat) (l r : expr) | Un (p : nat) (e : expr)
                | Post (e : expr) | Paren (e : expr).

Section P.
  Variable lbp : nat -> nat.                      (* binding power table *)
  Hypothesis lbp_lo : forall o, 1 <= lbp o.
  Hypothesis lbp_hi : forall o, lbp o <= 12.
  Definition rbp o := S (lbp o).

  Fixpoint pratt (fuel minbp : nat) (ts : list tok) {struct fuel} : option (expr * list tok) :=
    match fuel with 0 => None | S f =>
      match prefix f ts with
      | Some (l, ts1) => loop f minbp l ts1
      | None => None
      end
    end
  with prefix (fuel : nat) (ts : list tok) {struct fuel} : option (expr * list tok) :=
    match fuel with 0 => None | S f =>
      match ts with
      | TId n :: r => Some (Var n, r)
      | TPre p :: r => match pratt f 14 r with Some (e, r') => Some (Un p e, r') | None => None end
      | TL :: r => match pratt f 0 r with Some (e, TR :: r') => Some (Paren e, r') | _ => None end
      | _ => None
      end
    end
  with loop (fuel minbp : nat) (left : expr) (ts : list tok) {struct fuel} : option (expr * list tok) :=
    match fuel with 0 => None | S f =>
      match ts with
      | TOp o :: r =>
          if lbp o <? minbp then Some (left, ts)
          else match pratt f (rbp o) r with
               | Some (rhs, r') => loop f minbp (Bin o left rhs) r'
               | None => None
               end
      | TPost :: r => if 16 <? minbp then Some (left, ts) else loop f minbp (Post left) r
      | _ => Some (left, ts)
      end
    end.

  Fixpoint render (e : expr) : list tok :=
    match e with
    | Var n => [TId n]
    | Bin o l r => render l ++ TOp o :: render r
    | Un p e => TPre p :: render e
    | Post e => render e ++ [TPost]
    | Paren e => TL :: render e ++ [TR]
    end.

  Definition level (e : expr) : nat :=
    match e with Var _ | Paren _ => 100 | Post _ => 16 | Un _ _ => 14 | Bin o _ _ => lbp o end.

  Fixpoint ok (e : expr) : Prop :=
    match e with
    | Var _ => True
    | Bin o l r => lbp o <= level l /\ rbp o <= level r /\ ok l /\ ok r
    | Un _ e => 14 <= level e /\ ok e
    | Post e => 16 <= level e /\ ok e
    | Paren e => ok e
    end.

  (* what may follow a complete expression parsed at minimum binding power m *)
  Definition stops (m : nat) (rest : list tok) : Prop :=
    match rest with
    | TOp o :: _ => lbp o < m
    | TPost :: _ => 16 < m
    | _ => True
    end.
  Lemma stops_mono m m' rest : stops m rest -> m <= m' -> stops m' rest.
  Proof. destruct rest as [|[]]; simpl; auto; lia. Qed.

  (* the right edge of e must not be re-opened by what follows *)
  Fixpoint rstop (e : expr) (rest : list tok) : Prop :=
    match e with
    | Bin o _ r => stops (rbp o) rest /\ rstop r rest
    | Un _ e => stops 14 rest /\ rstop e rest
    | _ => True
    end.

  Lemma loop_stop n m e rest : stops m rest -> loop (S n) m e rest = Some (e, rest).
  Proof.
    destruct rest as [|[] rest]; simpl; auto; intros H.
    - apply Nat.ltb_lt in H. now rewrite H.
    - apply Nat.ltb_lt in H. now rewrite H.
  Qed.

  Lemma rstop_of_level e : ok e -> forall b rest, b <= level e -> stops (S b) rest -> b < 14 -> rstop e rest.
  Proof.
    induction e as [n|o l IHl r IHr|p e IH|e IH|e IH]; intros Hok b rest Hb Hs Hb14; simpl in *; auto.
    - destruct Hok as (H1 & H2 & H3 & H4). split.
      + apply (stops_mono (S b)); [assumption|unfold rbp; lia].
      + apply (IHr H4 (lbp o)).
        * unfold rbp in H2; lia.
        * apply (stops_mono (S b)); [assumption|lia].
        * specialize (lbp_hi o); lia.
    - destruct Hok as [H1 H2]. split.
      + apply (stops_mono (S b)); [assumption|lia].
      + apply (IH H2 b); auto. lia.
  Qed.

  Lemma rstop_closed e rest : (forall m, stops m rest) -> rstop e rest.
  Proof. intros H; induction e; simpl; auto. Qed.

  (* main lemma: if continuing the loop after e eventually succeeds with K,
     then parsing render e ++ rest eventually succeeds with K *)
  Definition ev (f : nat -> option (expr * list tok)) K := exists n0, forall n, n0 <= n -> f n = Some K.

  Lemma pratt_render e : ok e -> forall m rest K,
      m <= level e -> rstop e rest ->
      ev (fun n => loop n m e rest) K ->
      ev (fun n => pratt n m (render e ++ rest)) K.
  Proof.
    induction e as [x|o l IHl r IHr|p e IH|e IH|e IH]; intros Hok m rest K Hm Hrs [n0 HK].
    - exists (S (S n0)). intros n Hn. destruct n as [|[|n]]; try lia. cbn [render app pratt prefix]. apply HK. lia.
    - simpl in Hok. destruct Hok as (Hl & Hr & Hokl & Hokr). simpl in Hrs. destruct Hrs as [Hs Hrr].
      simpl render. rewrite <- app_assoc. cbn [app].
      apply IHl; auto.
      + simpl in Hm. lia.
      + apply (rstop_of_level l Hokl (lbp o)); auto. simpl. lia. specialize (lbp_hi o); lia.
      + (* loop from l over "o render r ++ rest" *)
        destruct (IHr Hokr (rbp o) rest (r, rest) Hr Hrr) as [n1 H1].
        { exists 1. intros n Hn. destruct n; try lia. apply loop_stop; auto. }
        exists (S (n0 + n1)). intros n Hn. destruct n as [|n]; try lia.
        cbn [loop]. simpl in Hm.
        assert (E : (lbp o <? m) = false) by (apply Nat.ltb_ge; lia). rewrite E.
        rewrite H1 by lia. apply HK. lia.
    - simpl in Hok. destruct Hok as [Hl Hoke]. simpl in Hrs. destruct Hrs as [Hs Hre].
      destruct (IH Hoke 14 rest (e, rest) Hl Hre) as [n1 H1].
      { exists 1. intros n Hn. destruct n; try lia. apply loop_stop; auto. }
      exists (S (S (n0 + n1))). intros n Hn. destruct n as [|[|n]]; try lia.
      cbn [render app pratt prefix]. rewrite H1 by lia. apply HK. lia.
    - simpl in Hok. destruct Hok as [Hl Hoke].
      simpl render. rewrite <- app_assoc. cbn [app].
      apply IH; auto.
      + simpl in Hm. lia.
      + destruct e; simpl in *; auto; try lia. specialize (lbp_hi o); lia.
      + exists (S n0). intros n Hn. destruct n as [|n]; try lia. cbn [loop].
        simpl in Hm. assert (E : (16 <? m) = false) by (apply Nat.ltb_ge; lia). rewrite E. apply HK. lia.
    - simpl in Hok.
      destruct (IH Hok 0 (TR :: rest) (e, TR :: rest)) as [n1 H1]; [lia| |..].
      { apply rstop_closed. intros; simpl; auto. }
      { exists 1. intros n Hn. destruct n; try lia. apply loop_stop; simpl; auto. }
      exists (S (S (n0 + n1))). intros n Hn. destruct n as [|[|n]]; try lia.
      cbn [render app]. rewrite <- app_assoc. cbn [app pratt prefix]. rewrite H1 by lia. apply HK. lia.
  Qed.

  Theorem pratt_roundtrip e m rest : ok e -> m <= level e -> rstop e rest -> stops m rest ->
    exists n0, forall n, n0 <= n -> pratt n m (render e ++ rest) = Some (e, rest).
  Proof.
    intros Hok Hm Hrs Hst. apply (pratt_render e Hok m rest (e, rest) Hm Hrs).
    exists 1. intros n Hn. destruct n; try lia. now apply loop_stop.
  Qed.
End P.
Print Assumptions pratt_roundtrip.
