From Coq Require Import List Arith Lia PeanoNat Bool.
Import ListNotations.

Section Upd.
  Context {A : Type}.
  Fixpoint upd (i : nat) (x : A) (l : list A) : list A :=
    match l, i with
    | [], _ => []
    | _ :: t, 0 => x :: t
    | h :: t, S i' => h :: upd i' x t
    end.
  Lemma upd_length i x l : length (upd i x l) = length l.
  Proof. revert i; induction l as [|h t IH]; intros [|i]; simpl; auto. Qed.
  Lemma nth_upd_eq i x l d : i < length l -> nth i (upd i x l) d = x.
  Proof. revert i; induction l as [|h t IH]; intros [|i] H; simpl in *; try lia; auto. apply IH; lia. Qed.
  Lemma nth_upd_neq i j x l d : i <> j -> nth j (upd i x l) d = nth j l d.
  Proof. revert i j; induction l as [|h t IH]; intros [|i] [|j] H; simpl; auto; try lia. Qed.
End Upd.

Section Pairs.
  Variable A : Type.
  Variable d : A.
  Variables f0 f1 : A -> A -> A.
  Variable s : nat.
  Hypothesis s_pos : 0 < s.

  Definition pair_step (st : list A) (i : nat) : list A :=
    let a0 := nth i st d in
    let a1 := nth (i + s) st d in
    upd (i + s) (f1 a0 a1) (upd i (f0 a0 a1) st).

  Lemma pair_step_length st i : length (pair_step st i) = length st.
  Proof. unfold pair_step. now rewrite !upd_length. Qed.

  Lemma fold_pair_length is st : length (fold_left pair_step is st) = length st.
  Proof. revert st; induction is as [|i is IH]; intros st; simpl; auto. rewrite IH. apply pair_step_length. Qed.

  Definition memb (k : nat) (l : list nat) : bool := existsb (Nat.eqb k) l.
  Lemma memb_In k l : memb k l = true <-> In k l.
  Proof. unfold memb. rewrite existsb_exists. split.
    - intros [x [Hx He]]. apply Nat.eqb_eq in He. now subst.
    - intros H. exists k. split; auto. apply Nat.eqb_refl. Qed.

  Definition Disj (is : list nat) : Prop :=
    NoDup is /\ forall a b, In a is -> In b is -> a <> b + s.

  Definition pair_spec (is : list nat) (st : list A) (k : nat) : A :=
    if memb k is then f0 (nth k st d) (nth (k + s) st d)
    else if (s <=? k) && memb (k - s) is then f1 (nth (k - s) st d) (nth k st d)
    else nth k st d.

  Lemma Disj_app_inv is i : Disj (is ++ [i]) ->
    Disj is /\ ~ In i is /\ (forall b, In b is -> i <> b + s) /\ (forall b, In b is -> b <> i + s).
  Proof.
    intros [Hnd Hd]. repeat split.
    - apply NoDup_remove_1 in Hnd. now rewrite app_nil_r in Hnd.
    - intros a b Ha Hb. apply Hd; apply in_or_app; auto.
    - apply NoDup_remove_2 in Hnd. now rewrite app_nil_r in Hnd.
    - intros b Hb. apply Hd; apply in_or_app; simpl; auto.
    - intros b Hb. apply Hd; apply in_or_app; simpl; auto.
  Qed.

  Lemma memb_app k l1 l2 : memb k (l1 ++ l2) = memb k l1 || memb k l2.
  Proof. unfold memb. apply existsb_app. Qed.

  Theorem fold_pair_spec is : forall st,
    Disj is -> (forall i, In i is -> i + s < length st) ->
    forall k, nth k (fold_left pair_step is st) d = pair_spec is st k.
  Proof.
    induction is as [|i is IH] using rev_ind; intros st HD Hlen k.
    - unfold pair_spec. cbn. now rewrite andb_false_r.
    - apply Disj_app_inv in HD. destruct HD as (HD & Hni & Hab & Hba).
      rewrite fold_left_app. cbn [fold_left].
      assert (Hlen' : forall j, In j is -> j + s < length st)
        by (intros j Hj; apply Hlen; apply in_or_app; auto).
      specialize (IH st HD Hlen').
      set (st' := fold_left pair_step is st) in *.
      assert (Hl' : length st' = length st) by apply fold_pair_length.
      assert (Hi : i + s < length st) by (apply Hlen; apply in_or_app; simpl; auto).
      (* values read at i and i+s are the original ones *)
      assert (Ri : nth i st' d = nth i st d).
      { rewrite IH. unfold pair_spec.
        destruct (memb i is) eqn:E1. { apply memb_In in E1. contradiction. }
        destruct (s <=? i) eqn:E2; cbn [andb]; auto.
        destruct (memb (i - s) is) eqn:E3; auto.
        apply memb_In in E3. apply Nat.leb_le in E2. exfalso. apply (Hab _ E3). lia. }
      assert (Ris : nth (i + s) st' d = nth (i + s) st d).
      { rewrite IH. unfold pair_spec.
        destruct (memb (i + s) is) eqn:E1. { apply memb_In in E1. exfalso. now apply (Hba _ E1). }
        assert (E2 : (s <=? i + s) = true) by (apply Nat.leb_le; lia). rewrite E2. cbn [andb].
        replace (i + s - s) with i by lia.
        destruct (memb i is) eqn:E3; auto. apply memb_In in E3. contradiction. }
      unfold pair_step. rewrite Ri, Ris.
      unfold pair_spec. rewrite !memb_app. cbn [memb existsb]. rewrite !orb_false_r.
      destruct (Nat.eq_dec k (i + s)) as [->|Hk1].
      + rewrite nth_upd_eq by (rewrite upd_length; lia).
        assert (E1 : memb (i + s) is = false).
        { destruct (memb (i + s) is) eqn:E; auto. apply memb_In in E. exfalso. now apply (Hba _ E). }
        rewrite E1. assert (E0 : (i + s =? i) = false) by (apply Nat.eqb_neq; lia). rewrite E0. cbn [orb].
        assert (E2 : (s <=? i + s) = true) by (apply Nat.leb_le; lia). rewrite E2. cbn [andb].
        replace (i + s - s) with i by lia. rewrite Nat.eqb_refl, orb_true_r. reflexivity.
      + rewrite nth_upd_neq by lia.
        destruct (Nat.eq_dec k i) as [->|Hk2].
        * rewrite nth_upd_eq by lia. rewrite Nat.eqb_refl, orb_true_r. reflexivity.
        * rewrite nth_upd_neq by lia. rewrite IH. unfold pair_spec.
          assert (E0 : (k =? i) = false) by (apply Nat.eqb_neq; lia). rewrite E0, orb_false_r.
          destruct (memb k is); auto.
          destruct (s <=? k) eqn:E2; cbn [andb]; auto.
          apply Nat.leb_le in E2.
          assert (E3 : (k - s =? i) = false) by (apply Nat.eqb_neq; lia). rewrite E3, orb_false_r. reflexivity.
  Qed.
End Pairs.
Print Assumptions fold_pair_spec.
