#!/bin/sh
# Build the framework from files on disk only (offline): Coq development (full .vo build),
# hooked build of /repo, extracted OCaml engines and C++ drivers are (re)built on demand by ./check.
set -e
cd "$(dirname "$0")"
mkdir -p build evidence
cd coq
coq_makefile -f _CoqProject -o Makefile
timeout 3000 make -k -j16 || true
cd ..
python3 - <<'PY'
import sys, os
sys.path.insert(0, "lib")
import vlib
vlib.repo_build("hooked")
PY
